(* C16  Only configured or permitted neighbours get a session, set up right.
   Statements only: each theorem is closed by [exact], pinned by [Check] and
   followed by [Print Assumptions]. *)
From Coq Require Import List NArith Bool.
From RB Require Import Base.Val Model.Caps Model.Fsm Model.Negotiate Model.Accept
                       Spec.NegotiateSpec Spec.AcceptSpec
                       Proofs.Negotiate Proofs.IpNet Proofs.Accept.
Import ListNotations.
Open Scope N_scope.

(* (1) The two ends hold mirror images: the same families, add-path receive/send swapped, the same extended-message and AS-width decision. *)
Theorem negotiate_mirror :
  forall (l r : list cap) (f : N),
    mirror (neg_family l r f) (neg_family r l f)
    /\ neg_extended_length l r = neg_extended_length r l
    /\ neg_two_byte_as l r = neg_two_byte_as r l.
Proof. exact C16_negotiate_mirror. Qed.
Check negotiate_mirror :
  forall (l r : list cap) (f : N),
    mirror (neg_family l r f) (neg_family r l f)
    /\ neg_extended_length l r = neg_extended_length r l
    /\ neg_two_byte_as l r = neg_two_byte_as r l.
Print Assumptions negotiate_mirror.

(* (2) A family is in force iff both ends advertised it. *)
Theorem family_in_force_iff_both :
  forall (l r : list cap) (f : N),
    neg_family l r f <> None <-> advertises_family l f /\ advertises_family r f.
Proof. exact C16_family_in_force_iff_both. Qed.
Check family_in_force_iff_both :
  forall (l r : list cap) (f : N),
    neg_family l r f <> None <-> advertises_family l f /\ advertises_family r f.
Print Assumptions family_in_force_iff_both.

(* (3) Extended message and 4-octet AS are in force iff both ends advertised them. *)
Theorem flags_in_force_iff_both :
  forall (l r : list cap),
    (neg_extended_length l r = true <-> In CExtMessage l /\ In CExtMessage r)
    /\ (neg_two_byte_as l r = false <-> (exists a, In (CFourOctet a) l) /\ (exists a, In (CFourOctet a) r)).
Proof. exact C16_flags_iff_both. Qed.
Check flags_in_force_iff_both :
  forall (l r : list cap),
    (neg_extended_length l r = true <-> In CExtMessage l /\ In CExtMessage r)
    /\ (neg_two_byte_as l r = false <-> (exists a, In (CFourOctet a) l) /\ (exists a, In (CFourOctet a) r)).
Print Assumptions flags_in_force_iff_both.

(* (4) Graceful restart is in force for the same families at both ends (those listed by both first GR capabilities). *)
Theorem graceful_restart_mirror :
  forall (l r : list cap), same_set (gr_fams (negotiate_gr l r)) (gr_fams (negotiate_gr r l)).
Proof. exact C16_gr_mirror. Qed.
Check graceful_restart_mirror :
  forall (l r : list cap), same_set (gr_fams (negotiate_gr l r)) (gr_fams (negotiate_gr r l)).
Print Assumptions graceful_restart_mirror.

(* (5) The driver's effective send-max and the codec agree (finding C16-2
   repaired): more than one path is sent for a family only where add-path send
   is in force in PeerCodec::negotiate; where it is, the configured send-max
   applies; where the family or the send direction is not in force it is 1. *)
Theorem send_max_iff_addpath_tx :
  forall (smax : list (N * N)) (l r : list cap) (f : N),
    (1 < driver_max smax l r f ->
       (exists rx, neg_family l r f = Some (rx, true)) /\ driver_max smax l r f = configured_max smax f)
    /\ ((exists rx, neg_family l r f = Some (rx, true)) -> driver_max smax l r f = configured_max smax f)
    /\ (neg_family l r f = None \/ (exists rx, neg_family l r f = Some (rx, false)) -> driver_max smax l r f = 1).
Proof. exact C16_send_max_iff_addpath_tx. Qed.
Check send_max_iff_addpath_tx :
  forall (smax : list (N * N)) (l r : list cap) (f : N),
    (1 < driver_max smax l r f ->
       (exists rx, neg_family l r f = Some (rx, true)) /\ driver_max smax l r f = configured_max smax f)
    /\ ((exists rx, neg_family l r f = Some (rx, true)) -> driver_max smax l r f = configured_max smax f)
    /\ (neg_family l r f = None \/ (exists rx, neg_family l r f = Some (rx, false)) -> driver_max smax l r f = 1).
Print Assumptions send_max_iff_addpath_tx.

(* (6) LLGR is in force for the same families at both ends, for all capability lists (finding C16-3 repaired). *)
Theorem llgr_mirror :
  forall (l r : list cap), same_set (llgr_fams (negotiate_llgr l r)) (llgr_fams (negotiate_llgr r l)).
Proof. exact C16_llgr_mirror. Qed.
Check llgr_mirror :
  forall (l r : list cap), same_set (llgr_fams (negotiate_llgr l r)) (llgr_fams (negotiate_llgr r l)).
Print Assumptions llgr_mirror.

(* (7) IpNet::contains: for every prefix length up to the address width, IPv4
   and IPv6, canonical or not, it does not panic and answers exactly "same
   family and the address agrees with the prefix on its leading mask bits". *)
Theorem contains_eq_bit_prefix :
  forall (net : ipnet) (addr : ipaddr),
    net_ok net -> addr_ok addr -> mask_of net <= width net ->
    exists v, contains net addr = COk v /\ (v = true <-> inside net addr).
Proof. exact C16_contains_eq_bit_prefix. Qed.
Check contains_eq_bit_prefix :
  forall (net : ipnet) (addr : ipaddr),
    net_ok net -> addr_ok addr -> mask_of net <= width net ->
    exists v, contains net addr = COk v /\ (v = true <-> inside net addr).
Print Assumptions contains_eq_bit_prefix.

(* (8) A prefix length above the width (which FromStr, the only constructor
   used for dynamic-neighbour prefixes, rejects: it accepts 0..=32 / 0..=128;
   IpNet::new does not check) never answers "inside": the result is false or
   a slice-index panic, and it is the panic on every address equal to the
   prefix's own octets. *)
Theorem contains_beyond_width :
  forall (w : nat) (a b : list N) (mask : N),
    length a = w -> length b = w -> 8 * N.of_nat w < mask ->
    (contains_octets a b mask = CPanic \/ contains_octets a b mask = COk false)
    /\ contains_octets a a mask = CPanic.
Proof. exact C16_contains_beyond_width. Qed.
Check contains_beyond_width :
  forall (w : nat) (a b : list N) (mask : N),
    length a = w -> length b = w -> 8 * N.of_nat w < mask ->
    (contains_octets a b mask = CPanic \/ contains_octets a b mask = COk false)
    /\ contains_octets a a mask = CPanic.
Print Assumptions contains_beyond_width.

(* (9) Record of finding C16-2 (repaired): the any-entry filter PeerFsm::process used before keeps a send-max of 8 for a family whose add-path send is not in force. *)
Theorem send_max_any_filter_refuted :
  exists (smax : list (N * N)) (l r : list cap) (f : N),
    In (f, 8) (effective_max_any smax l r) /\ neg_family l r f = Some (false, false).
Proof. exact C16_send_max_any_filter_refuted. Qed.
Check send_max_any_filter_refuted :
  exists (smax : list (N * N)) (l r : list cap) (f : N),
    In (f, 8) (effective_max_any smax l r) /\ neg_family l r f = Some (false, false).
Print Assumptions send_max_any_filter_refuted.

(* (10) Record of finding C16-3 (repaired): walking every local LLGR entry (no first-entry rule) leaves LLGR in force at one end only. *)
Theorem llgr_all_entries_refuted :
  exists (l r : list cap),
    ~ same_set (negotiate_llgr_all_entries l r) (negotiate_llgr_all_entries r l).
Proof. exact C16_llgr_all_entries_refuted. Qed.
Check llgr_all_entries_refuted :
  exists (l r : list cap),
    ~ same_set (negotiate_llgr_all_entries l r) (negotiate_llgr_all_entries r l).
Print Assumptions llgr_all_entries_refuted.

(* (11) Admission: for a configuration whose dynamic prefixes have lengths up to
   the address width (what FromStr accepts), a connection becomes a session iff
   its remote address is a configured neighbour that is administratively up and
   has no connection in that direction, or is not a configured neighbour and
   lies (bit-level) inside a dynamic-neighbour prefix; everything else is
   dropped (accept_connection returns None before any OPEN is built). *)
Theorem accept_iff_permitted :
  forall (g : global) (a : ipaddr) (r : role),
    wf_global g -> addr_ok a ->
    (accept_connection g a r <> Reject <-> permitted g a r).
Proof. exact C16_accept_iff_permitted. Qed.
Check accept_iff_permitted :
  forall (g : global) (a : ipaddr) (r : role),
    wf_global g -> addr_ok a ->
    (accept_connection g a r <> Reject <-> permitted g a r).
Print Assumptions accept_iff_permitted.

(* (12) The 'only if' of the property text, literally. *)
Theorem accept_only_if_text :
  forall (g : global) (a : ipaddr) (r : role),
    wf_global g -> addr_ok a -> accept_connection g a r <> Reject -> permitted_text g a r.
Proof. exact C16_accept_only_if_text. Qed.
Check accept_only_if_text :
  forall (g : global) (a : ipaddr) (r : role),
    wf_global g -> addr_ok a -> accept_connection g a r <> Reject -> permitted_text g a r.
Print Assumptions accept_only_if_text.

(* (13) An accepted connection is recorded on its neighbour, leaves every other
   neighbour and the groups untouched, and its session carries the neighbour's
   capabilities, local AS and prefix limits, the role that follows from the
   configured AS numbers (route-server client, iBGP / RR client, confederation
   member, eBGP) and a cluster id exactly for iBGP roles.  The neighbour is the
   configured one, or - for a dynamic neighbour - is built from a group one of
   whose prefixes contains the address: AS, hold time (default 180), passive,
   route-server, route-reflector, send-max and families from the group, no
   prefix limits, delete-on-disconnect set. *)
Theorem session_fields_from_config :
  forall (g g' : global) (a : ipaddr) (r : role) (s : session),
    accept_connection g a r = Accept g' s ->
    exists p,
      lookup a (gl_peers g') = Some p /\ s = session_of g p r
      /\ conn_of p r = true /\ (forall b, b <> a -> lookup b (gl_peers g') = lookup b (gl_peers g))
      /\ gl_groups g' = gl_groups g
      /\ s_local_cap s = pe_local_cap p /\ s_local_asn s = pe_local_asn p
      /\ s_prefix_limits s = pe_prefix_limits p /\ s_dir s = r
      /\ s_role s = role_of_config (match gl_confed g with Some (_, m) => m | None => [] end)
                                   (pe_rs_client p) (rr_client (pe_rr p)) (pe_expected_asn p) (pe_local_asn p)
      /\ (s_cluster s <> None <-> s_role s = 2 \/ s_role s = 3)
      /\ ((exists p0, lookup a (gl_peers g) = Some p0 /\ p = set_conn p0 r true)
          \/
          (lookup a (gl_peers g) = None /\
           exists gr, In gr (gl_groups g) /\ group_matches a gr = true
                      /\ p = set_conn (build_peer g a (params_of_group gr)) r true
                      /\ pe_expected_asn p = g_as gr
                      /\ pe_hold p = match g_hold gr with Some h => h | None => DEFAULT_HOLD_TIME end
                      /\ pe_passive p = g_passive gr /\ pe_rs_client p = g_rs_client gr /\ pe_rr p = g_rr gr
                      /\ pe_send_max p = g_send_max gr /\ pe_prefix_limits p = []
                      /\ pe_delete p = true /\ pe_admin_down p = false
                      /\ pe_local_cap p = build_local_cap (is_v6 a) (pe_local_asn p) (g_families gr) (g_gr gr) (g_llgr gr))).
Proof. exact C16_session_fields_from_config. Qed.
Check session_fields_from_config :
  forall (g g' : global) (a : ipaddr) (r : role) (s : session),
    accept_connection g a r = Accept g' s ->
    exists p,
      lookup a (gl_peers g') = Some p /\ s = session_of g p r
      /\ conn_of p r = true /\ (forall b, b <> a -> lookup b (gl_peers g') = lookup b (gl_peers g))
      /\ gl_groups g' = gl_groups g
      /\ s_local_cap s = pe_local_cap p /\ s_local_asn s = pe_local_asn p
      /\ s_prefix_limits s = pe_prefix_limits p /\ s_dir s = r
      /\ s_role s = role_of_config (match gl_confed g with Some (_, m) => m | None => [] end)
                                   (pe_rs_client p) (rr_client (pe_rr p)) (pe_expected_asn p) (pe_local_asn p)
      /\ (s_cluster s <> None <-> s_role s = 2 \/ s_role s = 3)
      /\ ((exists p0, lookup a (gl_peers g) = Some p0 /\ p = set_conn p0 r true)
          \/
          (lookup a (gl_peers g) = None /\
           exists gr, In gr (gl_groups g) /\ group_matches a gr = true
                      /\ p = set_conn (build_peer g a (params_of_group gr)) r true
                      /\ pe_expected_asn p = g_as gr
                      /\ pe_hold p = match g_hold gr with Some h => h | None => DEFAULT_HOLD_TIME end
                      /\ pe_passive p = g_passive gr /\ pe_rs_client p = g_rs_client gr /\ pe_rr p = g_rr gr
                      /\ pe_send_max p = g_send_max gr /\ pe_prefix_limits p = []
                      /\ pe_delete p = true /\ pe_admin_down p = false
                      /\ pe_local_cap p = build_local_cap (is_v6 a) (pe_local_asn p) (g_families gr) (g_gr gr) (g_llgr gr))).
Print Assumptions session_fields_from_config.

(* (14) When the connection (a, r) ends: a dynamic neighbour with no connection
   in the other direction disappears from the table, any other neighbour stays
   with the connection mark cleared, and no other neighbour is touched. *)
Theorem dynamic_peer_removed :
  forall (g : global) (a : ipaddr) (r : role) (p : peer),
    keys_ok g -> lookup a (gl_peers g) = Some p -> conn_of p r = true ->
    let g' := fst (step_op g (ODisconnect a r)) in
    (pe_delete p = true -> conn_of p (other r) = false -> lookup a (gl_peers g') = None)
    /\ (pe_delete p = false \/ conn_of p (other r) = true -> lookup a (gl_peers g') = Some (set_conn p r false))
    /\ (forall b, b <> a -> lookup b (gl_peers g') = lookup b (gl_peers g)).
Proof. exact C16_dynamic_peer_removed. Qed.
Check dynamic_peer_removed :
  forall (g : global) (a : ipaddr) (r : role) (p : peer),
    keys_ok g -> lookup a (gl_peers g) = Some p -> conn_of p r = true ->
    let g' := fst (step_op g (ODisconnect a r)) in
    (pe_delete p = true -> conn_of p (other r) = false -> lookup a (gl_peers g') = None)
    /\ (pe_delete p = false \/ conn_of p (other r) = true -> lookup a (gl_peers g') = Some (set_conn p r false))
    /\ (forall b, b <> a -> lookup b (gl_peers g') = lookup b (gl_peers g)).
Print Assumptions dynamic_peer_removed.

(* (15) Over every history of connects, disconnects, disables and enables: a
   dynamic neighbour is in the table only while it has a connection. *)
Theorem dynamic_peers_have_connections :
  forall (g : global) (ops : list op),
    keys_ok g -> dynamic_have_connection g ->
    dynamic_have_connection (run_ops g ops) /\ keys_ok (run_ops g ops).
Proof. exact C16_dynamic_peers_have_connections. Qed.
Check dynamic_peers_have_connections :
  forall (g : global) (ops : list op),
    keys_ok g -> dynamic_have_connection g ->
    dynamic_have_connection (run_ops g ops) /\ keys_ok (run_ops g ops).
Print Assumptions dynamic_peers_have_connections.

(* (16) PeerParams::apply_peer_group: the neighbour's own settings win, the group fills in what is left open. *)
Theorem peer_group_inheritance :
  forall (p : params) (gr : group),
    let q := apply_peer_group p gr in
    (pa_expected_asn q = if pa_expected_asn p =? 0 then g_as gr else pa_expected_asn p)
    /\ (pa_local_asn q = if pa_local_asn p =? 0 then g_local_asn gr else pa_local_asn p)
    /\ (pa_hold q = if pa_hold p =? DEFAULT_HOLD_TIME
                    then match g_hold gr with Some h => h | None => DEFAULT_HOLD_TIME end else pa_hold p)
    /\ (pa_families q = match pa_families p with [] => g_families gr | f => f end)
    /\ (pa_send_max q = match pa_families p with [] => g_send_max gr | _ => pa_send_max p end)
    /\ (pa_gr q = match pa_gr p with Some x => Some x | None => g_gr gr end)
    /\ (pa_llgr q = match pa_llgr p with Some x => Some x | None => g_llgr gr end)
    /\ pa_passive q = pa_passive p || g_passive gr
    /\ pa_rs_client q = pa_rs_client p || g_rs_client gr
    /\ pa_prefix_limits q = pa_prefix_limits p /\ pa_admin_down q = pa_admin_down p /\ pa_delete q = pa_delete p.
Proof. exact C16_peer_group_inheritance. Qed.
Check peer_group_inheritance :
  forall (p : params) (gr : group),
    let q := apply_peer_group p gr in
    (pa_expected_asn q = if pa_expected_asn p =? 0 then g_as gr else pa_expected_asn p)
    /\ (pa_local_asn q = if pa_local_asn p =? 0 then g_local_asn gr else pa_local_asn p)
    /\ (pa_hold q = if pa_hold p =? DEFAULT_HOLD_TIME
                    then match g_hold gr with Some h => h | None => DEFAULT_HOLD_TIME end else pa_hold p)
    /\ (pa_families q = match pa_families p with [] => g_families gr | f => f end)
    /\ (pa_send_max q = match pa_families p with [] => g_send_max gr | _ => pa_send_max p end)
    /\ (pa_gr q = match pa_gr p with Some x => Some x | None => g_gr gr end)
    /\ (pa_llgr q = match pa_llgr p with Some x => Some x | None => g_llgr gr end)
    /\ pa_passive q = pa_passive p || g_passive gr
    /\ pa_rs_client q = pa_rs_client p || g_rs_client gr
    /\ pa_prefix_limits q = pa_prefix_limits p /\ pa_admin_down q = pa_admin_down p /\ pa_delete q = pa_delete p.
Print Assumptions peer_group_inheritance.

(* (17) PeerParams::build_local_cap: MultiProtocol exactly for the configured families (the neighbour's address family when none), always 4-octet AS with the local AS and extended message, GR / LLGR exactly as configured. *)
Theorem local_cap_from_config :
  forall (v6 : bool) (la : N) (fams : list (N * N)) (gr : option grcfg) (llgr : option (list (N * N))),
    let caps := build_local_cap v6 la fams gr llgr in
    (forall f, In (CMultiProtocol f) caps <->
               (fams = [] /\ f = (if v6 then IPV6 else IPV4)) \/ In f (map fst fams))
    /\ In (CFourOctet la) caps /\ In CExtMessage caps
    /\ (forall fl t fs, In (CGR fl t fs) caps <->
                        exists g, gr = Some g /\ fl = (if gr_notif g then 4 else 0) /\ t = gr_time g
                                  /\ fs = map (fun f => (f, 0)) (gr_families g))
    /\ (forall v, In (CLLGR v) caps <-> exists l, llgr = Some l /\ v = map (fun ft => (fst ft, 0, snd ft)) l).
Proof. exact C16_local_cap_from_config. Qed.
Check local_cap_from_config :
  forall (v6 : bool) (la : N) (fams : list (N * N)) (gr : option grcfg) (llgr : option (list (N * N))),
    let caps := build_local_cap v6 la fams gr llgr in
    (forall f, In (CMultiProtocol f) caps <->
               (fams = [] /\ f = (if v6 then IPV6 else IPV4)) \/ In f (map fst fams))
    /\ In (CFourOctet la) caps /\ In CExtMessage caps
    /\ (forall fl t fs, In (CGR fl t fs) caps <->
                        exists g, gr = Some g /\ fl = (if gr_notif g then 4 else 0) /\ t = gr_time g
                                  /\ fs = map (fun f => (f, 0)) (gr_families g))
    /\ (forall v, In (CLLGR v) caps <-> exists l, llgr = Some l /\ v = map (fun ft => (fst ft, 0, snd ft)) l).
Print Assumptions local_cap_from_config.

(* (18) Global.peer_group is a hash map: whether a connection is admitted does not depend on its iteration order. *)
Theorem admission_independent_of_group_order :
  forall (g : global) (l : list group) (a : ipaddr) (r : role),
    wf_global g -> addr_ok a -> (forall gr, In gr l <-> In gr (gl_groups g)) ->
    (accept_connection (with_groups g l) a r <> Reject <-> accept_connection g a r <> Reject).
Proof. exact C16_admission_independent_of_group_order. Qed.
Check admission_independent_of_group_order :
  forall (g : global) (l : list group) (a : ipaddr) (r : role),
    wf_global g -> addr_ok a -> (forall gr, In gr l <-> In gr (gl_groups g)) ->
    (accept_connection (with_groups g l) a r <> Reject <-> accept_connection g a r <> Reject).
Print Assumptions admission_independent_of_group_order.

(* (19) Observation, not a finding: with overlapping dynamic prefixes in two groups the settings a dynamic neighbour inherits (here the hold time, 30 or 90) depend on the map's iteration order; the property text does not say which group is its group. *)
Theorem overlapping_groups_order_dependent :
  exists (g : global) (a : ipaddr) (p1 p2 : peer) (g1 g2 : global) (s1 s2 : session),
    accept_connection g a RPassive = Accept g1 s1
    /\ accept_connection (with_groups g (rev (gl_groups g))) a RPassive = Accept g2 s2
    /\ lookup a (gl_peers g1) = Some p1 /\ lookup a (gl_peers g2) = Some p2
    /\ pe_hold p1 = 30 /\ pe_hold p2 = 90.
Proof. exact C16_overlapping_groups_order_dependent. Qed.
Check overlapping_groups_order_dependent :
  exists (g : global) (a : ipaddr) (p1 p2 : peer) (g1 g2 : global) (s1 s2 : session),
    accept_connection g a RPassive = Accept g1 s1
    /\ accept_connection (with_groups g (rev (gl_groups g))) a RPassive = Accept g2 s2
    /\ lookup a (gl_peers g1) = Some p1 /\ lookup a (gl_peers g2) = Some p2
    /\ pe_hold p1 = 30 /\ pe_hold p2 = 90.
Print Assumptions overlapping_groups_order_dependent.

(* (20) Record of finding C16-5 (repaired): without the identity check at the end of PeerSession::run, the task of a deleted neighbour removes the dynamic neighbour admitted at the same address in the meantime, although that neighbour's connection is alive. *)
Theorem stale_task_removes_live_dynamic_peer_refuted :
  exists (g g' : global) (a : ipaddr) (s : session) (p : peer),
    fst (step_op g (ODeleteReconnect a RPassive)) = g'
    /\ snd (step_op g (ODeleteReconnect a RPassive)) = Some (Some s)
    /\ lookup a (gl_peers g') = Some p /\ pe_conn_passive p = true
    /\ lookup a (gl_peers (stale_task_end_unchecked g' a)) = None.
Proof. exact C16_stale_task_removes_live_dynamic_peer_refuted. Qed.
Check stale_task_removes_live_dynamic_peer_refuted :
  exists (g g' : global) (a : ipaddr) (s : session) (p : peer),
    fst (step_op g (ODeleteReconnect a RPassive)) = g'
    /\ snd (step_op g (ODeleteReconnect a RPassive)) = Some (Some s)
    /\ lookup a (gl_peers g') = Some p /\ pe_conn_passive p = true
    /\ lookup a (gl_peers (stale_task_end_unchecked g' a)) = None.
Print Assumptions stale_task_removes_live_dynamic_peer_refuted.

(* (21) UpdatePeer does not turn a dynamic neighbour into a permanent one (finding C16-6 repaired) nor the reverse, keeps the admin-down mark, and leaves every other neighbour alone. *)
Theorem update_keeps_dynamic :
  forall (g : global) (a : ipaddr) (u : upd) (p : peer),
    keys_ok g -> lookup a (gl_peers g) = Some p ->
    (forall p', lookup a (gl_peers (update_peer g a u)) = Some p' ->
                pe_delete p' = pe_delete p /\ pe_admin_down p' = pe_admin_down p)
    /\ (forall b, b <> a -> lookup b (gl_peers (update_peer g a u)) = lookup b (gl_peers g)).
Proof. exact C16_update_keeps_dynamic. Qed.
Check update_keeps_dynamic :
  forall (g : global) (a : ipaddr) (u : upd) (p : peer),
    keys_ok g -> lookup a (gl_peers g) = Some p ->
    (forall p', lookup a (gl_peers (update_peer g a u)) = Some p' ->
                pe_delete p' = pe_delete p /\ pe_admin_down p' = pe_admin_down p)
    /\ (forall b, b <> a -> lookup b (gl_peers (update_peer g a u)) = lookup b (gl_peers g)).
Print Assumptions update_keeps_dynamic.

(* (22) A connection admitted while an earlier connection of the same neighbour is ending (between apply_disconnect and the final lock of PeerSession::run) keeps its neighbour record and its connection mark (finding C16-7 repaired). *)
Theorem live_connection_keeps_record :
  forall (g : global) (a : ipaddr) (ro rn : role) (s : session),
    snd (step_op g (ODisconnectRace a ro rn)) = Some (Some s) ->
    exists p, lookup a (gl_peers (fst (step_op g (ODisconnectRace a ro rn)))) = Some p /\ conn_of p rn = true.
Proof. exact C16_live_connection_keeps_record. Qed.
Check live_connection_keeps_record :
  forall (g : global) (a : ipaddr) (ro rn : role) (s : session),
    snd (step_op g (ODisconnectRace a ro rn)) = Some (Some s) ->
    exists p, lookup a (gl_peers (fst (step_op g (ODisconnectRace a ro rn)))) = Some p /\ conn_of p rn = true.
Print Assumptions live_connection_keeps_record.

(* (23) Record of finding C16-7: with the no-sessions test taken before the lock, the ending task removes the dynamic neighbour whose new connection is alive. *)
Theorem stale_no_sessions_refuted :
  exists (g g' : global) (a : ipaddr) (s : session) (p : peer),
    fst (step_op g (ODisconnectRace a RPassive RPassive)) = g'
    /\ snd (step_op g (ODisconnectRace a RPassive RPassive)) = Some (Some s)
    /\ lookup a (gl_peers g') = Some p /\ pe_conn_passive p = true
    /\ lookup a (gl_peers (stale_task_end_unchecked g' a)) = None.
Proof. exact C16_stale_no_sessions_refuted. Qed.
Check stale_no_sessions_refuted :
  exists (g g' : global) (a : ipaddr) (s : session) (p : peer),
    fst (step_op g (ODisconnectRace a RPassive RPassive)) = g'
    /\ snd (step_op g (ODisconnectRace a RPassive RPassive)) = Some (Some s)
    /\ lookup a (gl_peers g') = Some p /\ pe_conn_passive p = true
    /\ lookup a (gl_peers (stale_task_end_unchecked g' a)) = None.
Print Assumptions stale_no_sessions_refuted.

(* (24) Record of finding C16-6: with delete-on-disconnect cleared by UpdatePeer, a dynamic neighbour's record survives the end of its last connection. *)
Theorem update_clearing_delete_refuted :
  exists (g1 : global) (a : ipaddr) (p : peer),
    lookup a (gl_peers g1) = Some p /\ pe_delete p = true /\ pe_conn_passive p = true /\ pe_conn_active p = false
    /\ lookup a (gl_peers (disconnect g1 a RPassive)) = None
    /\ lookup a (gl_peers (disconnect (set_peers g1 (update a (clear_delete p) (gl_peers g1))) a RPassive)) <> None.
Proof. exact C16_update_clearing_delete_refuted. Qed.
Check update_clearing_delete_refuted :
  exists (g1 : global) (a : ipaddr) (p : peer),
    lookup a (gl_peers g1) = Some p /\ pe_delete p = true /\ pe_conn_passive p = true /\ pe_conn_active p = false
    /\ lookup a (gl_peers (disconnect g1 a RPassive)) = None
    /\ lookup a (gl_peers (disconnect (set_peers g1 (update a (clear_delete p) (gl_peers g1))) a RPassive)) <> None.
Print Assumptions update_clearing_delete_refuted.

(* (25) UpdatePeer gives the neighbour the local AS that add_peer gives a neighbour configured that way, confederation identifier included (finding C16-8 repaired). *)
Theorem update_local_asn_as_configured :
  forall (g : global) (a : ipaddr) (u : upd) (p p' : peer) (pa : params),
    keys_ok g ->
    lookup a (gl_peers g) = Some p -> lookup a (gl_peers (update_peer g a u)) = Some p' ->
    u_rs_client u = pe_rs_client p -> u_rr_client u = rr_client (pe_rr p) ->
    pa_expected_asn pa = u_asn u -> pa_local_asn pa = u_local_asn u ->
    pe_local_asn p' = pe_local_asn (build_peer g a pa) /\ pe_expected_asn p' = u_asn u.
Proof. exact C16_update_local_asn_as_configured. Qed.
Check update_local_asn_as_configured :
  forall (g : global) (a : ipaddr) (u : upd) (p p' : peer) (pa : params),
    keys_ok g ->
    lookup a (gl_peers g) = Some p -> lookup a (gl_peers (update_peer g a u)) = Some p' ->
    u_rs_client u = pe_rs_client p -> u_rr_client u = rr_client (pe_rr p) ->
    pa_expected_asn pa = u_asn u -> pa_local_asn pa = u_local_asn u ->
    pe_local_asn p' = pe_local_asn (build_peer g a pa) /\ pe_expected_asn p' = u_asn u.
Print Assumptions update_local_asn_as_configured.
