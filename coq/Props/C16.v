(* C16  Only configured or permitted neighbours get a session, set up right:
   the negotiation part (mirror-image parameters; a feature is in force iff
   both advertised it).  PARTIAL: accept_connection, PeerParams and
   delete-on-disconnect are not modelled; IpNet::contains is modelled and tied
   to the code but its bit-level theorem is not proved here.
   Statements only: each theorem is closed by [exact], pinned by [Check] and
   followed by [Print Assumptions]. *)
From Coq Require Import List NArith Bool.
From RB Require Import Base.Val Model.Caps Model.Fsm Model.Negotiate Spec.NegotiateSpec Proofs.Negotiate.
Import ListNotations.
Open Scope N_scope.

(* (1) The two ends hold mirror images: the same families, add-path receive/send swapped, the same extended-message and AS-width decision. *)
Theorem negotiate_mirror :
  forall (l r : list cap) (f : N),
    mirror (neg_family l r f) (neg_family r l f)
    /\ neg_extended_length l r = neg_extended_length r l
    /\ neg_two_byte_as l r = neg_two_byte_as r l.
Proof. exact C16_negotiate_mirror. Qed.
Check negotiate_mirror :
  forall (l r : list cap) (f : N),
    mirror (neg_family l r f) (neg_family r l f)
    /\ neg_extended_length l r = neg_extended_length r l
    /\ neg_two_byte_as l r = neg_two_byte_as r l.
Print Assumptions negotiate_mirror.

(* (2) A family is in force iff both ends advertised it. *)
Theorem family_in_force_iff_both :
  forall (l r : list cap) (f : N),
    neg_family l r f <> None <-> advertises_family l f /\ advertises_family r f.
Proof. exact C16_family_in_force_iff_both. Qed.
Check family_in_force_iff_both :
  forall (l r : list cap) (f : N),
    neg_family l r f <> None <-> advertises_family l f /\ advertises_family r f.
Print Assumptions family_in_force_iff_both.

(* (3) Extended message and 4-octet AS are in force iff both ends advertised them. *)
Theorem flags_in_force_iff_both :
  forall (l r : list cap),
    (neg_extended_length l r = true <-> In CExtMessage l /\ In CExtMessage r)
    /\ (neg_two_byte_as l r = false <-> (exists a, In (CFourOctet a) l) /\ (exists a, In (CFourOctet a) r)).
Proof. exact C16_flags_iff_both. Qed.
Check flags_in_force_iff_both :
  forall (l r : list cap),
    (neg_extended_length l r = true <-> In CExtMessage l /\ In CExtMessage r)
    /\ (neg_two_byte_as l r = false <-> (exists a, In (CFourOctet a) l) /\ (exists a, In (CFourOctet a) r)).
Print Assumptions flags_in_force_iff_both.

(* (4) Graceful restart is in force for the same families at both ends (those listed by both first GR capabilities). *)
Theorem graceful_restart_mirror :
  forall (l r : list cap), same_set (gr_fams (negotiate_gr l r)) (gr_fams (negotiate_gr r l)).
Proof. exact C16_gr_mirror. Qed.
Check graceful_restart_mirror :
  forall (l r : list cap), same_set (gr_fams (negotiate_gr l r)) (gr_fams (negotiate_gr r l)).
Print Assumptions graceful_restart_mirror.

(* (5) Finding C16-2 (open): with duplicate ADD-PATH entries the FSM's effective send-max exceeds 1 for a negotiated family whose add-path send direction is not in force in the codec. *)
Theorem send_max_without_addpath_tx_refuted :
  exists (smax : list (N * N)) (l r : list cap) (f : N),
    has_mp l f && has_mp r f = true /\ 1 < driver_max smax l r f
    /\ neg_family l r f = Some (false, false).
Proof. exact C16_send_max_without_addpath_tx_refuted. Qed.
Check send_max_without_addpath_tx_refuted :
  exists (smax : list (N * N)) (l r : list cap) (f : N),
    has_mp l f && has_mp r f = true /\ 1 < driver_max smax l r f
    /\ neg_family l r f = Some (false, false).
Print Assumptions send_max_without_addpath_tx_refuted.

(* (6) Finding C16-3 (open): an LLGR capability naming a family twice can leave LLGR in force at one end only. *)
Theorem llgr_mirror_refuted :
  exists (l r : list cap),
    ~ same_set (llgr_fams (negotiate_llgr l r)) (llgr_fams (negotiate_llgr r l)).
Proof. exact C16_llgr_mirror_refuted. Qed.
Check llgr_mirror_refuted :
  exists (l r : list cap),
    ~ same_set (llgr_fams (negotiate_llgr l r)) (llgr_fams (negotiate_llgr r l)).
Print Assumptions llgr_mirror_refuted.
