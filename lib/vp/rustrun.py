"""Building the Rust harnesses against /repo's working tree and running them."""
import os, shutil
from .util import VERIF, REPO, BUILD, GUARD, sh, ensure_dir
from . import val

def _write_cases(name, cases):
    wd = ensure_dir(os.path.join(BUILD, 'cases', name))
    cin = os.path.join(wd, 'impl_cases.txt')
    cout = os.path.join(wd, 'impl_out.txt')
    with open(cin, 'w') as f:
        for c in cases:
            f.write(val.to_text(c) + '\n')
    if os.path.exists(cout):
        os.remove(cout)
    return cin, cout

def _read_out(cout, n):
    if not os.path.exists(cout):
        return None, 'harness produced no output file'
    res = [val.from_text(l) for l in open(cout) if l.strip()]
    if len(res) != n:
        return None, 'harness printed %d lines for %d cases' % (len(res), n)
    return res, ''

# A case on which the implementation does not return (harness/common/val.rs watchdog: the
# harness writes <out>.hang with the case index and exits 97; every finished case has been
# flushed) is observed as HANG (a value no harness can print: observations are
# nested integer lists); the cases after it are run in a fresh process with a
# short deadline.  After MAX_HANGS wedged cases the remaining ones are not run: SKIPPED
# (no verdict, not counted as validated).
MAX_HANGS = 12
HANG = ['__wedged__']
SKIPPED = ['__not_run__']
SHORT_DEADLINE_MS = '8000'

def _hang_index(cout, n):
    hp = cout + '.hang'
    if not os.path.exists(hp):
        return None
    try:
        k = int(open(hp).read().strip())
    except ValueError:
        return None
    os.remove(hp)
    return k if 0 <= k < n else None

def _around_hang(h, cout, cases, rerun, depth):
    done = [val.from_text(l) for l in open(cout) if l.strip()] if os.path.exists(cout) else []
    if len(done) < h:
        return None, 'harness wedged on case %d but only %d results were written' % (h, len(done))
    done = done[:h]
    rest = cases[h + 1:]
    if not rest:
        return done + [list(HANG)], ''
    if depth + 1 >= MAX_HANGS:
        return done + [list(HANG)] + [list(SKIPPED) for _ in rest], ''
    b, err = rerun(rest)
    if b is None:
        return None, err
    return done + [list(HANG)] + b, ''

# ---------------------------------------------------------------- freshness of the build cache
# cargo decides whether a workspace crate must be rebuilt by comparing file modification times
# with its artefacts.  A tree that was restored or switched with OLDER mtimes than the cached
# artefacts (rsync -a from a pristine copy, a second checkout) would be taken for already built
# and the check would run yesterday's code.  The content of the source files decides instead:
# when the digest of REPO's sources differs from the one the cache was built from, the
# fingerprints of the workspace crates and of the harness crates are dropped (in /verif/.build
# only), which makes cargo rebuild exactly those.
_SRC_EXT = ('.rs', '.toml', '.proto', '.lock')

def tree_digest(repo=None):
    import hashlib
    repo = os.path.realpath(repo or REPO)
    h = hashlib.sha256()
    for root, dirs, files in os.walk(repo):
        dirs[:] = sorted(d for d in dirs if d not in ('target', '.git', 'node_modules') and not d.startswith('.'))
        for fn in sorted(files):
            if fn.endswith(_SRC_EXT):
                fp = os.path.join(root, fn)
                try:
                    data = open(fp, 'rb').read()
                except OSError:
                    continue
                h.update(os.path.relpath(fp, repo).encode()); h.update(b'\0'); h.update(hashlib.sha256(data).digest())
    return h.hexdigest()

def ensure_fresh():
    import json, glob
    from .util import flock
    ensure_dir(BUILD)
    with flock('freshness'):
        stamp = os.path.join(BUILD, 'tree_digest.json')
        try:
            known = json.load(open(stamp))
        except (OSError, ValueError):
            known = {}
        key = os.path.realpath(REPO)
        d = tree_digest()
        if known.get(key) == d:
            return False
        had = key in known
        known[key] = d
        if had:
            for fpdir in glob.glob(os.path.join(BUILD, '*', '*', '.fingerprint')) + glob.glob(os.path.join(BUILD, '*', '*', '*', '.fingerprint')):
                top = os.path.relpath(fpdir, BUILD).split(os.sep)[0]
                if top.startswith('daemon') and top != _daemon_target():
                    continue        # the daemon target directory of ANOTHER repository path (it may be mid-build)
                for e in os.listdir(fpdir):
                    if e.startswith(('rustybgp', 'hx-', 'hx_')):
                        shutil.rmtree(os.path.join(fpdir, e), ignore_errors=True)
        json.dump(known, open(stamp, 'w'), indent=1)
        return had

def _daemon_target():
    """One target directory per repository path: cargo names workspace artefacts independently of the
    absolute path of the workspace and judges freshness by mtime, so a second checkout whose files are
    older than the artefacts of the first would be taken for already built."""
    if os.path.realpath(REPO) == '/repo':
        return 'daemon'
    import hashlib
    return 'daemon_' + hashlib.sha1(os.path.realpath(REPO).encode()).hexdigest()[:10]

def daemon_test(name, test_filter, cases, release=False, timeout=1500, extra_env=None, _depth=0):
    """Runs one #[test] of the hook modules compiled into the daemon crate
    (cfg(all(test, osrg_rustybgp_verif))) from /repo's current working tree."""
    if _depth == 0:
        ensure_fresh()
    cin, cout = _write_cases(name, cases)
    env = {'RUSTFLAGS': '--cfg ' + GUARD,
           'VERIF_HX_DIR': os.path.join(VERIF, 'harness'),
           'CARGO_TARGET_DIR': os.path.join(BUILD, _daemon_target()),
           'VERIF_CASES': cin, 'VERIF_OUT': cout}
    if extra_env:
        env.update(extra_env)
    cmd = 'cargo test -p rustybgpd --offline %s %s -- --exact --nocapture --test-threads 1' % (
        '--release' if release else '', test_filter)
    rc, out, dt = sh(cmd, cwd=REPO, env=env, timeout=timeout)
    if rc != 0:
        h = _hang_index(cout, len(cases))
        if h is not None and _depth < MAX_HANGS:
            return _around_hang(h, cout, cases, lambda cs: daemon_test(name, test_filter, cs, release, timeout, dict(extra_env or {}, VERIF_CASE_DEADLINE_MS=SHORT_DEADLINE_MS), _depth + 1), _depth)
        return None, out[-4000:]
    return _read_out(cout, len(cases))

def render_manifest(cdir):
    """Cargo.toml.in -> Cargo.toml with @REPO@ replaced by the repository under
    verification (VERIF_REPO, default /repo), so path dependencies follow it."""
    tin = os.path.join(cdir, 'Cargo.toml.in')
    if os.path.exists(tin):
        new = open(tin).read().replace('@REPO@', REPO)
        out = os.path.join(cdir, 'Cargo.toml')
        if not os.path.exists(out) or open(out).read() != new:
            open(out, 'w').write(new)

def crate_bin(name, crate, args, cases, release=False, timeout=1500, extra_env=None, _depth=0):
    """Runs a harness crate under /verif/harness/<crate> (path deps on /repo crates)."""
    if _depth == 0:
        ensure_fresh()
    cin, cout = _write_cases(name, cases)
    cdir = os.path.join(VERIF, 'harness', crate)
    render_manifest(cdir)
    lock = os.path.join(cdir, 'Cargo.lock')
    # keep the lock file in step with the repository's own pins
    if not os.path.exists(lock):
        shutil.copy(os.path.join(REPO, 'Cargo.lock'), lock)
    env = {'CARGO_TARGET_DIR': os.path.join(BUILD, crate),
           'VERIF_HX_DIR': os.path.join(VERIF, 'harness'),
           'VERIF_REPO': REPO,
           'VERIF_CASES': cin, 'VERIF_OUT': cout}
    if extra_env:
        env.update(extra_env)
    cmd = 'cargo run --offline %s --manifest-path %s -- %s' % (
        '--release' if release else '', os.path.join(cdir, 'Cargo.toml'), args)
    rc, out, dt = sh(cmd, cwd=cdir, env=env, timeout=timeout)
    if rc != 0:
        h = _hang_index(cout, len(cases))
        if h is not None and _depth < MAX_HANGS:
            return _around_hang(h, cout, cases, lambda cs: crate_bin(name, crate, args, cs, release, timeout, dict(extra_env or {}, VERIF_CASE_DEADLINE_MS=SHORT_DEADLINE_MS), _depth + 1), _depth)
        return None, out[-4000:]
    return _read_out(cout, len(cases))
