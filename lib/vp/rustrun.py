"""Building the Rust harnesses against /repo's working tree and running them."""
import os, shutil
from .util import VERIF, REPO, BUILD, GUARD, sh, ensure_dir
from . import val

def _write_cases(name, cases):
    wd = ensure_dir(os.path.join(BUILD, 'cases', name))
    cin = os.path.join(wd, 'impl_cases.txt')
    cout = os.path.join(wd, 'impl_out.txt')
    with open(cin, 'w') as f:
        for c in cases:
            f.write(val.to_text(c) + '\n')
    if os.path.exists(cout):
        os.remove(cout)
    return cin, cout

def _read_out(cout, n):
    if not os.path.exists(cout):
        return None, 'harness produced no output file'
    res = [val.from_text(l) for l in open(cout) if l.strip()]
    if len(res) != n:
        return None, 'harness printed %d lines for %d cases' % (len(res), n)
    return res, ''

def daemon_test(name, test_filter, cases, release=False, timeout=1500, extra_env=None):
    """Runs one #[test] of the hook modules compiled into the daemon crate
    (cfg(all(test, osrg_rustybgp_verif))) from /repo's current working tree."""
    cin, cout = _write_cases(name, cases)
    env = {'RUSTFLAGS': '--cfg ' + GUARD,
           'VERIF_HX_DIR': os.path.join(VERIF, 'harness'),
           'CARGO_TARGET_DIR': os.path.join(BUILD, 'daemon'),
           'VERIF_CASES': cin, 'VERIF_OUT': cout}
    if extra_env:
        env.update(extra_env)
    cmd = 'cargo test -p rustybgpd --offline %s %s -- --exact --nocapture --test-threads 1' % (
        '--release' if release else '', test_filter)
    rc, out, dt = sh(cmd, cwd=REPO, env=env, timeout=timeout)
    if rc != 0:
        return None, out[-4000:]
    return _read_out(cout, len(cases))

def render_manifest(cdir):
    """Cargo.toml.in -> Cargo.toml with @REPO@ replaced by the repository under
    verification (VERIF_REPO, default /repo), so path dependencies follow it."""
    tin = os.path.join(cdir, 'Cargo.toml.in')
    if os.path.exists(tin):
        new = open(tin).read().replace('@REPO@', REPO)
        out = os.path.join(cdir, 'Cargo.toml')
        if not os.path.exists(out) or open(out).read() != new:
            open(out, 'w').write(new)

def crate_bin(name, crate, args, cases, release=False, timeout=1500, extra_env=None):
    """Runs a harness crate under /verif/harness/<crate> (path deps on /repo crates)."""
    cin, cout = _write_cases(name, cases)
    cdir = os.path.join(VERIF, 'harness', crate)
    render_manifest(cdir)
    lock = os.path.join(cdir, 'Cargo.lock')
    # keep the lock file in step with the repository's own pins
    if not os.path.exists(lock):
        shutil.copy(os.path.join(REPO, 'Cargo.lock'), lock)
    env = {'CARGO_TARGET_DIR': os.path.join(BUILD, crate),
           'VERIF_HX_DIR': os.path.join(VERIF, 'harness'),
           'VERIF_REPO': REPO,
           'VERIF_CASES': cin, 'VERIF_OUT': cout}
    if extra_env:
        env.update(extra_env)
    cmd = 'cargo run --offline %s --manifest-path %s -- %s' % (
        '--release' if release else '', os.path.join(cdir, 'Cargo.toml'), args)
    rc, out, dt = sh(cmd, cwd=cdir, env=env, timeout=timeout)
    if rc != 0:
        return None, out[-4000:]
    return _read_out(cout, len(cases))
