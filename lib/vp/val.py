"""Nested-integer-array values: conversion between python lists, the Rust
harness text format (JSON-compatible) and Coq [val] terms."""
import json, re

def to_text(v):
    """python nested lists/ints -> the line format read by harness/common/val.rs"""
    if isinstance(v, bool):
        return '1' if v else '0'
    if isinstance(v, int):
        return str(v)
    return '[' + ','.join(to_text(x) for x in v) + ']'

def from_text(s):
    return json.loads(s)

_tok = re.compile(r'V[IL]\b')

def from_coq(s):
    """'VL [VI 1; VL [VI (-2)]]' -> [1, [-2]]"""
    s = _tok.sub('', s)
    s = s.replace('(', '').replace(')', '').replace(';', ',').replace('%Z', '').replace('%N', '')
    return json.loads(s)

# ---- rendering python data as Gallina terms
def cN(n):
    assert isinstance(n, int) and n >= 0, n
    return '%d%%N' % n

def cZ(n):
    return '(%d)%%Z' % n

def cbool(b):
    return 'true' if b else 'false'

def clist(items):
    return '[' + '; '.join(items) + ']'

def cpair(a, b):
    return '(%s, %s)' % (a, b)

def copt(o):
    return 'None' if o is None else '(Some %s)' % o

def cbytes(bs):
    return clist([cN(b) for b in bs])
