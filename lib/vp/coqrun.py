"""Building the Coq development and evaluating model terms with vm_compute."""
import os, re, concurrent.futures, shutil
from .util import VERIF, BUILD, sh, ensure_dir, flock
from . import val

COQ = os.path.join(VERIF, 'coq')

FORBIDDEN = re.compile(
    r'\b(Admitted|admit|Axiom|Axioms|Parameter|Parameters|Conjecture|Conjectures|'
    r'Admit\s+Obligations|Unset\s+Guard\s+Checking|Unset\s+Positivity\s+Checking|'
    r'Unset\s+Universe\s+Checking|bypass_check|Hypothesis|Hypotheses|Variable|Variables)\b')
FLAG_FORBIDDEN = re.compile(r'type-in-type|impredicative-set')

# standard-library axioms that may appear under Print Assumptions
ALLOWED_AXIOMS = {
    'functional_extensionality_dep', 'proof_irrelevance', 'JMeq_eq', 'Eq_rect_eq.eq_rect_eq',
    'classic', 'propositional_extensionality',
}

def strip_comments(src):
    out, depth, i = [], 0, 0
    while i < len(src):
        if src.startswith('(*', i):
            depth += 1; i += 2
        elif src.startswith('*)', i) and depth > 0:
            depth -= 1; i += 2
        else:
            if depth == 0:
                out.append(src[i])
            i += 1
    return ''.join(out)

def scan_forbidden():
    """Every .v file of the development: forbidden vernacular outside comments.
    Variable/Hypothesis are allowed only inside a Section."""
    bad = []
    for root, _, files in os.walk(COQ):
        for fn in files:
            if not fn.endswith('.v'):
                continue
            p = os.path.join(root, fn)
            src = strip_comments(open(p).read())
            depth = 0
            for ln, line in enumerate(src.split('\n'), 1):
                if re.match(r'\s*Section\b', line):
                    depth += 1
                if re.match(r'\s*End\b', line) and depth > 0:
                    depth -= 1
                for m in FORBIDDEN.finditer(line):
                    w = m.group(1)
                    if w.startswith(('Variable', 'Hypothes')) and depth > 0:
                        continue
                    bad.append('%s:%d: %s' % (os.path.relpath(p, VERIF), ln, w))
    proj = open(os.path.join(COQ, '_CoqProject')).read()
    if FLAG_FORBIDDEN.search(proj):
        bad.append('coq/_CoqProject: forbidden flag')
    return bad

def write_coqproject():
    """_CoqProject lists every .v file under the development's directories."""
    lines = ['-Q . RB',
             '-arg -w -arg -notation-overridden,-deprecated-hint-without-locality,-deprecated-instance-without-locality']
    for d in ('Base', 'Model', 'Spec', 'Proofs', 'Props', 'Extract'):
        dd = os.path.join(COQ, d)
        if os.path.isdir(dd):
            for root, _, files in sorted(os.walk(dd)):
                for fn in sorted(files):
                    if fn.endswith('.v'):
                        lines.append(os.path.relpath(os.path.join(root, fn), COQ))
    new = '\n'.join(lines) + '\n'
    p = os.path.join(COQ, '_CoqProject')
    if not os.path.exists(p) or open(p).read() != new:
        open(p, 'w').write(new)

def make_targets(targets, timeout=1500, clean=False):
    """Full .vo build of the given targets (and what they depend on)."""
    # compiled files are shared by concurrently running checks: builders serialise on
    # 'coqmake'; a from-scratch rebuild (thorough tier) additionally excludes the readers
    # (model evaluation holds 'coqvo' shared) while it rewrites .vo files
    with flock('coqmake'), flock('coqvo', shared=not clean):
        write_coqproject()
        rc, out, dt = sh('coq_makefile -f _CoqProject -o Makefile.coq', cwd=COQ, timeout=120)
        if rc != 0:
            return rc, out, dt
        if clean:
            # rebuild the property's whole dependency chain from source (make -B),
            # leaving other properties' compiled files alone
            return sh('timeout %d make -B -f Makefile.coq -j16 %s' % (timeout, ' '.join(targets)), cwd=COQ, timeout=timeout + 30)
        # always re-run the property files so that Print Assumptions output is captured
        for t in targets:
            for ext in ('.vo', '.glob', '.vos', '.vok'):
                f = os.path.join(COQ, t[:-3] + ext)
                if t.startswith('Props/') and os.path.exists(f):
                    os.remove(f)
        return sh('timeout %d make -f Makefile.coq -j16 %s' % (timeout, ' '.join(targets)), cwd=COQ, timeout=timeout + 30)

def parse_props_file(relpath):
    """Theorem names declared in a Props file."""
    src = strip_comments(open(os.path.join(COQ, relpath)).read())
    return re.findall(r'^\s*Theorem\s+(\w+)', src, re.M)

def parse_assumptions(make_output, theorems):
    """Map theorem -> list of axioms (empty when closed), from the coqc output of the
    Props file: each Print Assumptions prints either 'Closed under the global context'
    or 'Axioms:' followed by 'name : type' lines."""
    res = {}
    blocks = re.split(r'(?m)^(?=Closed under the global context|Axioms:)', make_output)
    found = []
    for b in blocks:
        if b.startswith('Closed under the global context'):
            found.append([])
        elif b.startswith('Axioms:'):
            ax = re.findall(r'(?m)^([A-Za-z_][\w\.\']*)\s*:', b[len('Axioms:'):])
            found.append(ax)
    for k, t in enumerate(theorems):
        res[t] = found[k] if k < len(found) else None
    return res

def coqchk(modules, timeout=1200):
    return sh('timeout %d coqchk -silent -o -Q . RB %s' % (timeout, ' '.join(modules)), cwd=COQ, timeout=timeout + 30)

HEADER = '''From Coq Require Import List ZArith NArith Bool.
Import ListNotations.
Set Printing Width 100000000.
Set Printing Depth 100000000.
%s
Open Scope Z_scope.
'''

MAX_TERMS_PER_FILE = 2000

def _run_shard(args):
    k, wd, preamble, terms = args
    fn = os.path.join(wd, 'cases_%d.v' % k)
    with open(fn, 'w') as f:
        f.write(HEADER % preamble)
        for t in terms:
            f.write('Eval vm_compute in (%s).\n' % t)
    rc, out, dt = sh('timeout 900 coqc -noglob -Q %s RB -Q %s VC %s' % (COQ, wd, fn), cwd=wd, timeout=930)
    if rc != 0:
        return k, None, out
    res = []
    for m in re.finditer(r'(?m)^\s*= (.*)$', out):
        res.append(val.from_coq(m.group(1)))
    if len(res) != len(terms):
        return k, None, 'expected %d results, parsed %d\n%s' % (len(terms), len(res), out[:2000])
    return k, res, ''

def eval_terms(name, preamble, terms, shards=16):
    """Evaluate Gallina terms of type val with vm_compute, in order."""
    wd = ensure_dir(os.path.join(BUILD, 'cases', name))
    for f in os.listdir(wd):
        os.remove(os.path.join(wd, f))
    n = len(terms)
    if n == 0:
        return [], ''
    shards = max(1, min(shards, (n + 19) // 20))
    # at most MAX_TERMS_PER_FILE terms per coqc process (each has its own time limit, so a large
    # thorough run on a loaded machine is many short jobs for `shards` workers, not 16 long ones)
    nchunks = max(shards, (n + MAX_TERMS_PER_FILE - 1) // MAX_TERMS_PER_FILE)
    chunks = [[] for _ in range(nchunks)]
    idx = [[] for _ in range(nchunks)]
    for i, t in enumerate(terms):
        chunks[i % nchunks].append(t)
        idx[i % nchunks].append(i)
    out = [None] * n
    with flock('coqvo', shared=True), concurrent.futures.ThreadPoolExecutor(max_workers=shards) as ex:
        for k, res, err in ex.map(_run_shard, [(k, wd, preamble, chunks[k]) for k in range(nchunks)]):
            if res is None:
                return None, err
            for i, r in zip(idx[k], res):
                out[i] = r
    return out, ''
