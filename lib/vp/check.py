"""bin/check driver: proof stage, correspondence stage, violation search, evidence."""
import os, sys, json, time, random, importlib, argparse, traceback
from . import coqrun, rustrun, val
from .util import VERIF, REPO, BUILD, ensure_dir, sha256_file, seed_from_env, sh

TRUSTED_BASE_COMMON = [
    'Coq 8.16.1 kernel (coqc; coqchk in the thorough tier); vm_compute is used for finite sweeps, witnesses and model evaluation; native_compute is not used',
    'no axioms declared by this development; Print Assumptions output per theorem is listed under coverage.assumptions',
    'the hand-written Gallina model of the anchored Rust code (coq/Model/*.v) is tied to /repo only by the differential correspondence run of this check: the Rust harness under /verif/harness built against the working tree, the python case generators and canonicalisers (gen/*.py, lib/vp/*.py), std::panic::catch_unwind; differential testing is sampling and can miss a divergence',
]

def load_known():
    p = os.path.join(VERIF, 'known_findings.json')
    if not os.path.exists(p):
        return []
    return json.load(open(p)).get('findings', [])

class Result:
    def __init__(self):
        self.violations = []      # (kind, text, replay_obj, found_input)
        self.known_hits = {}      # finding id -> count
        self.notes = []

def write_replay(pid, obj, tag):
    d = ensure_dir(os.path.join(VERIF, 'evidence', 'replay'))
    p = os.path.join(d, '%s_%s.json' % (pid, tag))
    with open(p, 'w') as f:
        json.dump(obj, f, indent=1, sort_keys=True)
    return p

def shrink_case(P, case, still_fails, max_rounds=60):
    """Greedy delta-debugging over the operation list of a case (field named by
    P.ops_field): drop chunks, then single operations, while the failure persists.
    `still_fails(list of cases) -> list of bool` evaluates a batch."""
    fld = getattr(P, 'ops_field', None)
    if not fld or not isinstance(case, dict) or fld not in case:
        return case
    cur = dict(case)
    rounds = 0
    chunk = max(1, len(cur[fld]) // 2)
    while rounds < max_rounds and len(cur[fld]) > 1:
        rounds += 1
        ops = cur[fld]
        cands = []
        for i in range(0, len(ops), chunk):
            c = dict(cur); c[fld] = ops[:i] + ops[i + chunk:]
            if c[fld]:
                cands.append(c)
        if not cands:
            break
        try:
            res = still_fails(cands)
        except Exception:
            break
        hit = next((c for c, r in zip(cands, res) if r), None)
        if hit is not None:
            cur = hit
            chunk = max(1, min(chunk, len(cur[fld]) // 2))
        elif chunk > 1:
            chunk = max(1, chunk // 2)
        else:
            break
    return cur

WEDGED = ('the implementation did not return within the per-case deadline on this input '
          '(wedged: loops without consuming input or blocks for ever)')

def _marked(obs, marker):
    """the marker itself, or a per-profile list [debug, release, ..] one of whose entries is the marker"""
    return obs == marker or (isinstance(obs, list) and any(x == marker for x in obs))

def canon(P, case, obs):
    if _marked(obs, rustrun.HANG): return rustrun.HANG
    if _marked(obs, rustrun.SKIPPED): return rustrun.SKIPPED
    return P.canon(case, obs)

def judge(P, case, obs):
    """The property's Spec oracle, preceded by the observation every harness shares:
    rustrun.HANG = the harness watchdog ended the process on this case (lib/vp/rustrun.py)."""
    if _marked(obs, rustrun.HANG):
        return WEDGED
    if _marked(obs, rustrun.SKIPPED):
        return None
    return P.oracle(case, obs)

def run(pid, tier, seed, replay=None):
    t0 = time.time()
    mod = importlib.import_module('gen.' + pid.lower())
    P = mod.Prop()
    rng = random.Random(seed * 1000003 + sum(ord(c) for c in pid))
    res = Result()
    cov = {}
    known = [k for k in load_known() if k['property'] == pid and k.get('status') == 'open']

    # ------------------------------------------------------------ proof stage
    coqrun.write_coqproject()
    theorems = coqrun.parse_props_file(P.props_file)
    bad = coqrun.scan_forbidden()
    rc, out, dt = coqrun.make_targets([P.props_file[:-2] + '.vo'] + getattr(P, 'extra_targets', []),
                                      clean=(tier == 'thorough' and os.environ.get('VERIF_NO_CLEAN') is None))
    proof_ok = True
    broken = []
    if bad:
        proof_ok = False
        broken.append('forbidden vernacular: ' + '; '.join(bad[:10]))
    assumptions = {}
    if rc != 0:
        proof_ok = False
        tail = '\n'.join(out.strip().split('\n')[-25:])
        broken.append('coq build failed for %s:\n%s' % (P.props_file, tail))
    else:
        assumptions = coqrun.parse_assumptions(out, theorems)
        for t in theorems:
            ax = assumptions.get(t)
            if ax is None:
                proof_ok = False
                broken.append('no Print Assumptions output for theorem %s' % t)
            else:
                extra = [a for a in ax if a.split('.')[-1] not in coqrun.ALLOWED_AXIOMS and a not in coqrun.ALLOWED_AXIOMS]
                if extra:
                    proof_ok = False
                    broken.append('theorem %s depends on non-allow-listed axioms: %s' % (t, ', '.join(extra)))
        missing = [t for t in P.required_theorems if t not in theorems]
        if missing:
            proof_ok = False
            broken.append('required theorems missing from %s: %s' % (P.props_file, ', '.join(missing)))
    chk_out = ''
    if proof_ok and tier == 'thorough':
        mods = ['RB.' + P.props_file[:-2].replace('/', '.')]
        rc2, chk_out, _ = coqrun.coqchk(mods)
        if rc2 != 0:
            proof_ok = False
            broken.append('coqchk failed:\n' + chk_out[-1500:])
    cov['obligations'] = len(P.required_theorems)
    cov['discharged'] = len([t for t in P.required_theorems if t in theorems and assumptions.get(t) is not None]) if rc == 0 and not bad else 0
    cov['theorems'] = theorems
    cov['assumptions'] = {t: (a if a else 'Closed under the global context') for t, a in assumptions.items()}
    cov['checker_cmd'] = 'cd coq && coq_makefile -f _CoqProject -o Makefile.coq && make -f Makefile.coq %s.vo' % P.props_file[:-2] + (
        ' && coqchk -silent -o -Q . RB RB.%s' % P.props_file[:-2].replace('/', '.') if tier == 'thorough' else '')
    cov['props_sha256'] = sha256_file(os.path.join(coqrun.COQ, P.props_file))
    if chk_out:
        cov['coqchk'] = chk_out.strip().split('\n')[-12:]

    # --------------------------------------------------- correspondence stage
    corpus = P.corpus_cases() if hasattr(P, 'corpus_cases') else []
    if replay:
        cases = [json.load(open(replay))['case']] if replay.endswith('.json') else [val.from_text(open(replay).read())]
        cases = [P.case_from_json(c) if hasattr(P, 'case_from_json') else c for c in cases]
    else:
        cases = corpus + P.gen_cases(rng, tier)
    corr_ok = True
    corr_msgs = []
    mismatches = []
    impl_obs = model_obs = None
    t1 = time.time()
    impl_obs, err = P.run_impl(cases, tier)
    if impl_obs is None:
        corr_ok = False
        corr_msgs.append('harness build/run failed:\n' + err[-3000:])
    t2 = time.time()
    model_obs, err2 = P.run_model(cases, tier)
    if model_obs is None:
        corr_ok = False
        corr_msgs.append('model evaluation failed:\n' + err2[-3000:])
    t3 = time.time()
    if impl_obs is not None and model_obs is not None:
        for k, (c, a, b) in enumerate(zip(cases, impl_obs, model_obs)):
            ca, cb = canon(P, c, a), canon(P, c, b)
            if ca != cb:
                mismatches.append(k)
        if mismatches:
            corr_ok = False
    cov['traces_validated_against_impl'] = (len(cases) - len(mismatches)) if impl_obs is not None and model_obs is not None else 0
    cov['evaluations'] = len(cases)
    cov['impl_wall_s'] = round(t2 - t1, 2)
    cov['model_wall_s'] = round(t3 - t2, 2)

    # ------------------------------------------------------- violation search
    # The Spec oracle judges the implementation's observations, on every run.
    spec_fail = []
    if impl_obs is not None:
        for k, (c, a) in enumerate(zip(cases, impl_obs)):
            why = judge(P, c, a)
            if why:
                kid = None
                for kf in known:
                    if why is not WEDGED and P.in_known_class(kf, c, a, why):
                        kid = kf['id']
                        break
                if kid:
                    res.known_hits[kid] = res.known_hits.get(kid, 0) + 1
                else:
                    spec_fail.append((k, why))
    nontrivial = set()
    dist = {}
    if impl_obs is not None:
        for c, a in zip(cases, impl_obs):
            if _marked(a, rustrun.HANG) or _marked(a, rustrun.SKIPPED):
                tag = 'impl_wedged' if _marked(a, rustrun.HANG) else 'impl_not_run'
                dist[tag] = dist.get(tag, 0) + 1
                continue
            key = P.nontrivial_key(c, a)
            if key is not None:
                nontrivial.add(key)
            for tag in P.classify(c, a):
                dist[tag] = dist.get(tag, 0) + 1
    cov['distinct_nontrivial'] = len(nontrivial)
    cov['rule'] = P.rule
    cov['input_distribution'] = dist
    cov['samples'] = [P.case_to_json(c) for c in cases[:3]] + ([P.case_to_json(cases[-1])] if len(cases) > 3 else [])
    cov['exhaustive'] = bool(getattr(P, 'exhaustive', {}).get(tier, False))
    cov['trusted_base'] = TRUSTED_BASE_COMMON + list(P.trusted_base)
    cov['known_findings_reproduced'] = res.known_hits

    lines = []
    nviol = 0
    for kf in known:
        # a listed finding is announced whenever the check runs on a tree that still has it
        if res.known_hits.get(kf['id'], 0) > 0 or kf.get('always_announce'):
            lines.append('KNOWN-FINDING: property=%s %s' % (pid, kf['what_fails']))
    if spec_fail:
        k, why = spec_fail[0]
        def fails_spec(cs):
            obs, _ = P.run_impl(cs, tier)
            if obs is None:
                return [False] * len(cs)
            out = []
            for c1, o1 in zip(cs, obs):
                w1 = judge(P, c1, o1)
                out.append(bool(w1) and (w1 is WEDGED or not any(P.in_known_class(kf, c1, o1, w1) for kf in known)))
            return out
        small = shrink_case(P, cases[k], fails_spec) if not replay else cases[k]
        why_small = why
        if small is not cases[k]:
            o1, _ = P.run_impl([small], tier)
            why_small = (judge(P, small, o1[0]) if o1 else None) or why
        rp = write_replay(pid, {'property': pid, 'kind': 'spec-violation-on-implementation', 'why': why_small,
                                'case': P.case_to_json(small), 'unshrunk_case': P.case_to_json(cases[k]),
                                'replay_cmd': 'bin/check %s --replay <this file>' % pid}, 'violation')
        lines.append('VIOLATION property=%s replay=%s' % (pid, rp))
        nviol += len(spec_fail)
    elif not corr_ok or not proof_ok:
        what = []
        if not proof_ok:
            what += broken
        if not corr_ok:
            what += corr_msgs
            if mismatches:
                k = mismatches[0]
                what.append('model and implementation disagree on %d of %d cases; first: case %d' % (len(mismatches), len(cases), k))
        obj = {'property': pid, 'kind': 'obligation-no-longer-checks',
               'broken': what,
               'theorems': P.required_theorems,
               'correspondence': P.correspondence_name}
        if mismatches:
            k = mismatches[0]
            def disagrees(cs):
                a, _ = P.run_impl(cs, tier)
                b, _ = P.run_model(cs, tier)
                if a is None or b is None:
                    return [False] * len(cs)
                return [canon(P, c1, x) != canon(P, c1, y) for c1, x, y in zip(cs, a, b)]
            small = shrink_case(P, cases[k], disagrees, max_rounds=25) if not replay else cases[k]
            a, _ = P.run_impl([small], tier)
            b, _ = P.run_model([small], tier)
            obj['case'] = P.case_to_json(small)
            obj['impl'] = a[0] if a else impl_obs[k]
            obj['model'] = b[0] if b else model_obs[k]
            obj['unshrunk_case'] = P.case_to_json(cases[k])
        rp = write_replay(pid, obj, 'broken')
        lines.append('VIOLATION property=%s replay=%s no-failing-input-found' % (pid, rp))
        nviol += 1
    wall = time.time() - t0
    ev = {'property_id': pid, 'tier': tier, 'seed': seed, 'level': 'proof', 'coverage': cov,
          'assumptions': list(P.assumptions), 'wall_s': round(wall, 2), 'violations': nviol}
    # a run against another repository path (a seeded scratch worktree, VERIF_REPO) does not describe /repo:
    # its evidence goes to a scratch directory, /verif/evidence keeps what the checks found on /repo itself
    from .util import REPO as _REPO
    edir = os.path.join(VERIF, 'evidence') if os.path.realpath(_REPO) == '/repo' else ensure_dir(os.path.join('/tmp', 'verif_evidence_other_repo'))
    ensure_dir(edir)
    with open(os.path.join(edir, pid + '.json'), 'w') as f:
        json.dump(ev, f, indent=1, sort_keys=True)
    for l in lines:
        print(l)
    print('%s tier=%s seed=%d theorems=%d/%d cases=%d agree=%d nontrivial=%d known=%s wall=%.1fs' % (
        pid, tier, seed, cov['discharged'], cov['obligations'], len(cases), cov['traces_validated_against_impl'],
        len(nontrivial), res.known_hits, wall))
    if nviol:
        for b in (broken + corr_msgs)[:4]:
            print(b)
        for k, why in spec_fail[:3]:
            print('spec failure on case %d: %s' % (k, why))
    return 1 if nviol else 0

def main():
    ap = argparse.ArgumentParser()
    ap.add_argument('pid')
    ap.add_argument('--tier', default=os.environ.get('VERIF_TIER', 'quick'))
    ap.add_argument('--seed', type=int, default=None)
    ap.add_argument('--replay', default=None)
    a = ap.parse_args()
    seed = a.seed if a.seed is not None else seed_from_env()
    sys.path.insert(0, VERIF)
    try:
        # two runs of one property share .build/cases/<id>: serialise them
        from .util import flock
        with flock('check_' + a.pid.upper()):
            rc = run(a.pid.upper(), a.tier if a.tier in ('quick', 'thorough') else 'quick', seed, a.replay)
    except Exception:
        traceback.print_exc()
        rp = write_replay(a.pid.upper(), {'property': a.pid.upper(), 'kind': 'check-crashed', 'trace': traceback.format_exc()}, 'broken')
        print('VIOLATION property=%s replay=%s no-failing-input-found' % (a.pid.upper(), rp))
        rc = 1
    sys.exit(rc)
