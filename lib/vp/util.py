import os, subprocess, time, hashlib, json, random, sys, fcntl, contextlib

VERIF = os.path.dirname(os.path.dirname(os.path.dirname(os.path.abspath(__file__))))
REPO = os.environ.get('VERIF_REPO', '/repo')
BUILD = os.path.join(VERIF, '.build')
GUARD = 'osrg_rustybgp_verif'

def ensure_dir(p):
    os.makedirs(p, exist_ok=True)
    return p

def sh(cmd, cwd=None, env=None, timeout=None, stdin=None):
    e = dict(os.environ)
    e['CARGO_NET_OFFLINE'] = 'true'
    if env:
        e.update(env)
    t0 = time.time()
    try:
        p = subprocess.run(cmd, cwd=cwd, env=e, shell=isinstance(cmd, str), timeout=timeout,
                           stdout=subprocess.PIPE, stderr=subprocess.STDOUT, input=stdin)
        return p.returncode, p.stdout.decode('utf-8', 'replace'), time.time() - t0
    except subprocess.TimeoutExpired as ex:
        out = (ex.stdout or b'').decode('utf-8', 'replace')
        return 124, out + '\n[timeout after %ss]' % timeout, time.time() - t0

@contextlib.contextmanager
def flock(name, shared=False):
    ensure_dir(BUILD)
    f = open(os.path.join(BUILD, name + '.lock'), 'a')
    fcntl.flock(f, fcntl.LOCK_SH if shared else fcntl.LOCK_EX)
    try:
        yield
    finally:
        fcntl.flock(f, fcntl.LOCK_UN)
        f.close()

def sha256_file(p):
    h = hashlib.sha256()
    with open(p, 'rb') as f:
        h.update(f.read())
    return h.hexdigest()

def seed_from_env():
    s = os.environ.get('VERIF_SEED')
    try:
        return int(s) if s is not None else 1
    except ValueError:
        return int(hashlib.sha256(s.encode()).hexdigest()[:8], 16)
