// Correspondence harness for property C19 (BMP / MRT records): drives the
// public codecs of rustybgp_packet::{bmp, mrt} on the generated cases and
// prints the bytes they produce, together with the reference encoding of every
// embedded BGP message (the opaque parameter of the Coq model).  Mode `parse`
// runs the repository's own BGP parser on PDUs that the python structural
// reader extracted from the records.
#[allow(dead_code)]
mod val {
    include!(concat!(env!("VERIF_HX_DIR"), "/common/val.rs"));
}
#[allow(dead_code)]
mod caps {
    include!(concat!(env!("VERIF_HX_DIR"), "/common/caps.rs"));
}
#[allow(dead_code)]
mod mon {
    include!(concat!(env!("VERIF_HX_DIR"), "/common/mon.rs"));
}
use val::Val;

use bytes::BytesMut;
use rustybgp_packet::{bmp, mrt};
use tokio_util::codec::Encoder;

// ---------------------------------------------------------------- BMP

// [peer_type, flags, asn, id(4 bytes), distinguisher, addr(4|16 bytes), timestamp]
fn pph_of(v: &Val) -> bmp::PerPeerHeader {
    let l = v.list();
    bmp::PerPeerHeader::new(
        l[1].u8(),
        l[2].u32(),
        mon::v4_of(&l[3]),
        l[4].u64(),
        mon::ip_of(&l[5]),
        l[6].u32(),
    )
    .with_peer_type(l[0].u8())
}

// Returns the message and the reference encodings of its embedded BGP messages.
fn bmp_of(v: &Val) -> (bmp::Message, Vec<Vec<u8>>) {
    let l = v.list();
    match l[0].int() {
        0 => {
            let update = mon::msg_of(&l[2]);
            let addpath = l[3].bool();
            let blob = mon::ref_encode(&update, addpath);
            (
                bmp::Message::RouteMonitoring {
                    header: pph_of(&l[1]),
                    update,
                    addpath,
                },
                vec![blob],
            )
        }
        1 => (bmp::Message::StatsReports, vec![]),
        2 => {
            let r = l[2].list();
            let (reason, blobs) = match r[0].int() {
                1 => {
                    let m = mon::msg_of(&r[1]);
                    let b = mon::ref_encode(&m, false);
                    (bmp::PeerDownReason::LocalNotification(m), vec![b])
                }
                2 => (bmp::PeerDownReason::LocalFsm(r[1].u16()), vec![]),
                3 => {
                    let m = mon::msg_of(&r[1]);
                    let b = mon::ref_encode(&m, false);
                    (bmp::PeerDownReason::RemoteNotification(m), vec![b])
                }
                4 => (bmp::PeerDownReason::RemoteUnexpected, vec![]),
                5 => (bmp::PeerDownReason::Deconfigured, vec![]),
                t => panic!("verif: bad peer-down reason {}", t),
            };
            (
                bmp::Message::PeerDown {
                    header: pph_of(&l[1]),
                    reason,
                },
                blobs,
            )
        }
        3 => {
            let local_open = mon::msg_of(&l[5]);
            let remote_open = mon::msg_of(&l[6]);
            let b1 = mon::ref_encode(&local_open, false);
            let b2 = mon::ref_encode(&remote_open, false);
            (
                bmp::Message::PeerUp {
                    header: pph_of(&l[1]),
                    local_addr: mon::ip_of(&l[2]),
                    local_port: l[3].u16(),
                    remote_port: l[4].u16(),
                    local_open,
                    remote_open,
                },
                vec![b1, b2],
            )
        }
        4 => (
            bmp::Message::Initiation(
                l[1].list()
                    .iter()
                    .map(|t| (t.at(0).u16(), mon::bytes_of(t.at(1))))
                    .collect(),
            ),
            vec![],
        ),
        5 => (bmp::Message::Termination, vec![]),
        6 => (bmp::Message::RouteMirroring, vec![]),
        t => panic!("verif: bad bmp tag {}", t),
    }
}

fn blobs_val(b: &[Vec<u8>]) -> Val {
    Val::L(b.iter().map(|x| Val::from_bytes(x)).collect())
}

// case: [prefill bytes, [msg...]] -> [buffer, [blobs per message]]
// All messages go through ONE BmpCodec into ONE buffer (as the Framed sink does).
fn run_bmp(case: &Val) -> Val {
    let mut codec = bmp::BmpCodec::new();
    let mut buf = BytesMut::new();
    buf.extend_from_slice(&case.at(0).bytes());
    let mut blobs = Vec::new();
    for m in case.at(1).list() {
        let (msg, b) = bmp_of(m);
        codec.encode(&msg, &mut buf).expect("verif: bmp encode");
        blobs.push(blobs_val(&b));
    }
    Val::L(vec![Val::from_bytes(&buf), Val::L(blobs)])
}

// ---------------------------------------------------------------- MRT BGP4MP

// [remote_asn, local_asn, ifindex, remote addr, local addr, is_asn4]
fn mph_of(v: &Val) -> mrt::MpHeader {
    let l = v.list();
    mrt::MpHeader::new(
        l[0].u32(),
        l[1].u32(),
        l[2].u16(),
        mon::ip_of(&l[3]),
        mon::ip_of(&l[4]),
        l[5].bool(),
    )
}

fn now_secs() -> u32 {
    std::time::SystemTime::now()
        .duration_since(std::time::SystemTime::UNIX_EPOCH)
        .unwrap()
        .as_secs() as u32
}

// case: [prefill, [[mphdr, msg, addpath]...]] -> [buffer with the 4 timestamp bytes of
// every record start zeroed, timestamps-within-the-call-window, [blob per message]]
fn run_mrt(case: &Val) -> Val {
    let mut codec = mrt::MrtCodec::new();
    let mut buf = BytesMut::new();
    buf.extend_from_slice(&case.at(0).bytes());
    let mut blobs = Vec::new();
    let mut ts_ok = true;
    for m in case.at(1).list() {
        let body = mon::msg_of(m.at(1));
        let addpath = m.at(2).bool();
        let blob = mon::ref_encode(&body, addpath);
        let msg = mrt::Message::Mp {
            header: mph_of(m.at(0)),
            body,
            addpath,
        };
        let pos = buf.len();
        let t0 = now_secs();
        codec.encode(&msg, &mut buf).expect("verif: mrt encode");
        let t1 = now_secs();
        // The timestamp is wall-clock time: checked against the call window here,
        // then blanked so that observations are reproducible.
        // walk the records this call appended (12-byte header, length at +8)
        let mut p = pos;
        if p == buf.len() {
            ts_ok = false;
        }
        while p < buf.len() {
            if p + 12 > buf.len() {
                ts_ok = false;
                break;
            }
            let ts = u32::from_be_bytes([buf[p], buf[p + 1], buf[p + 2], buf[p + 3]]);
            if ts < t0 || ts > t1 {
                ts_ok = false;
            }
            for k in 0..4 {
                buf[p + k] = 0;
            }
            let l = u32::from_be_bytes([buf[p + 8], buf[p + 9], buf[p + 10], buf[p + 11]]) as usize;
            p += 12 + l;
        }
        blobs.push(blobs_val(&[blob]));
    }
    Val::L(vec![Val::from_bytes(&buf), Val::b(ts_ok), Val::L(blobs)])
}

// ---------------------------------------------------------------- TABLE_DUMP_V2

fn rib_entries_of(v: &Val) -> Vec<mrt::RibEntry> {
    mon::items(v)
        .iter()
        .map(|e| mrt::RibEntry {
            peer_index: e.at(0).u16(),
            originated: e.at(1).u32(),
            nexthop: mon::nexthop_of(e.at(2)),
            attrs: mon::attrs_of(e.at(3)),
        })
        .collect()
}

fn entries_side(e: &[mrt::RibEntry]) -> Val {
    // per entry: the wire encoding of each attribute (opaque to the model)
    Val::L(e.iter().map(|x| mon::attrs_val(&x.attrs)).collect())
}

// case: [prefill, [[timestamp, record]...]] -> [buffer, [per record: [prefix bytes, [attr encodings per entry]]]]
fn run_td(case: &Val) -> Val {
    let mut buf = BytesMut::new();
    buf.extend_from_slice(&case.at(0).bytes());
    let mut side = Vec::new();
    for r in case.at(1).list() {
        let ts = r.at(0).u32();
        let rec = r.at(1).list();
        let record = match rec[0].int() {
            0 => {
                side.push(Val::L(vec![Val::L(vec![]), Val::L(vec![])]));
                mrt::TableDumpRecord::PeerIndexTable {
                    router_id: mon::v4_of(&rec[1]),
                    peers: mon::items(&rec[2])
                        .iter()
                        .map(|p| mrt::PeerEntry {
                            bgp_id: mon::v4_of(p.at(0)),
                            addr: mon::ip_of(p.at(1)),
                            asn: p.at(2).u32(),
                        })
                        .collect(),
                }
            }
            t @ (1 | 2) => {
                let prefix = mon::nlri_of(&rec[2]);
                let entries = rib_entries_of(&rec[3]);
                side.push(Val::L(vec![
                    Val::from_bytes(&prefix.encode_to_bytes()),
                    entries_side(&entries),
                ]));
                if t == 1 {
                    mrt::TableDumpRecord::RibIpv4Unicast {
                        seq: rec[1].u32(),
                        prefix,
                        entries,
                    }
                } else {
                    mrt::TableDumpRecord::RibIpv6Unicast {
                        seq: rec[1].u32(),
                        prefix,
                        entries,
                    }
                }
            }
            t => panic!("verif: bad table dump record tag {}", t),
        };
        mrt::encode_table_dump(ts, &record, &mut buf).expect("verif: encode_table_dump");
    }
    Val::L(vec![Val::from_bytes(&buf), Val::L(side)])
}

// ---------------------------------------------------------------- parse-back

// case: [[family...], addpath, pdu bytes]
fn run_parse(case: &Val) -> Val {
    let fams: Vec<_> = case.at(0).list().iter().map(mon::fam_of).collect();
    mon::parse_pdu(&fams, case.at(1).bool(), &case.at(2).bytes())
}

fn main() {
    let mode = std::env::args().nth(1).unwrap_or_default();
    match mode.as_str() {
        "bmp" => val::run_cases(run_bmp),
        "mrt" => val::run_cases(run_mrt),
        "td" => val::run_cases(run_td),
        "parse" => val::run_cases(run_parse),
        m => panic!("unknown mode {}", m),
    }
}
