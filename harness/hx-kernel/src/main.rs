// Correspondence harness for the next-hop reference counts kept by the kernel
// service task (kernel/src/lib.rs run_service_loop), property C20.
//
// The real KernelService is started on a real rtnetlink socket; only
// register_nexthop / unregister_nexthop requests are sent (nothing is installed).
// The counts are local to the task; what leaves it is the NexthopUpdate event it
// emits when a registration takes an address from "not watched" to "watched".
// A case is a list of requests [1,a] (register) / [2,a] (unregister); the
// observation is the list of addresses for which an update was emitted, in order.
#[allow(dead_code)]
mod val {
    include!(concat!(env!("VERIF_HX_DIR"), "/common/val.rs"));
}
use val::Val;

use rustybgp_kernel::{KernelEvent, KernelService};
use std::io::{BufRead, Write};
use std::net::{IpAddr, Ipv4Addr};
use std::time::Duration;

#[tokio::main(flavor = "current_thread")]
async fn main() {
    let cases = std::env::var("VERIF_CASES").expect("VERIF_CASES not set");
    let out = std::env::var("VERIF_OUT").expect("VERIF_OUT not set");
    let rd = std::io::BufReader::new(std::fs::File::open(&cases).expect("open cases"));
    let mut wr = std::io::BufWriter::new(std::fs::File::create(&out).expect("create out"));
    let (etx, mut erx) = tokio::sync::mpsc::unbounded_channel();
    let (_svc, handle) = match KernelService::start(vec![], etx) {
        Ok(x) => x,
        Err(e) => {
            eprintln!("hx-kernel: cannot start the kernel service: {}", e);
            std::process::exit(3);
        }
    };
    for (n, line) in rd.lines().enumerate() {
        let line = line.expect("read line");
        if line.trim().is_empty() {
            continue;
        }
        let case = Val::parse(&line).expect("parse case");
        // every case uses its own address block so that counts start from zero
        let blk = (n % 250) as u8;
        let hi = 100 + (n / 250) as u8;
        let addr = |a: u32| IpAddr::V4(Ipv4Addr::new(10, hi, blk, a as u8));
        for r in case.list() {
            match r.at(0).u32() {
                1 => handle.register_nexthop(addr(r.at(1).u32())),
                2 => handle.unregister_nexthop(addr(r.at(1).u32())),
                _ => {}
            }
        }
        let sentinel = addr(255);
        handle.register_nexthop(sentinel);
        let mut emitted = Vec::new();
        let mut ok = false;
        loop {
            match tokio::time::timeout(Duration::from_secs(10), erx.recv()).await {
                Ok(Some(KernelEvent::NexthopUpdate { addr: a, .. })) => {
                    if a == sentinel {
                        ok = true;
                        break;
                    }
                    if let IpAddr::V4(v) = a {
                        let o = v.octets();
                        if o[1] == hi && o[2] == blk {
                            emitted.push(Val::I(o[3] as i128));
                        }
                    }
                }
                Ok(Some(_)) => {}
                _ => break,
            }
        }
        handle.unregister_nexthop(sentinel);
        if ok {
            writeln!(wr, "{}", Val::L(emitted)).unwrap();
        } else {
            writeln!(wr, "[-1]").unwrap();
        }
    }
    wr.flush().unwrap();
}
