// Correspondence harness for property C14: drives the real
// rustybgp_table::PolicyTable (table/src/policy.rs) through its public API,
// exactly the calls the daemon's gRPC layer makes, and evaluates routes with
// apply_import / apply_export.  One case = a sequence of operations on one
// fresh PolicyTable; one observation per operation.  A panic inside an
// operation is the observation [-1] and ends the case.
//
// Encodings (nested integer arrays) are documented in gen/c14.py; the
// conversions and the operation driver are harness/common/policy_ops.rs.
#[allow(dead_code)]
mod val {
    include!(concat!(env!("VERIF_HX_DIR"), "/common/val.rs"));
}
use val::Val;

include!(concat!(env!("VERIF_HX_DIR"), "/common/policy_ops.rs"));

fn main() {
    val::run_cases(run_case);
}
