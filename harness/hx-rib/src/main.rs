// Correspondence harness for the RIB core (properties C02, C06, C15):
// drives the public API of rustybgp_table::Table with the operation
// sequences of the generated cases and prints canonical observations.
#[allow(dead_code)]
mod val {
    include!(concat!(env!("VERIF_HX_DIR"), "/common/val.rs"));
}
use val::Val;

use rustybgp_packet::bgp::{self, Attribute, Family, Nexthop};
use rustybgp_packet::{self as packet, Nlri};
use rustybgp_table::{
    InsertResult, NlriChange, PeerRole, Source, Table, TableQuery,
};
use std::collections::HashMap;
use std::net::{IpAddr, Ipv4Addr};
use std::sync::Arc;
use std::sync::atomic::{AtomicU64, Ordering};

fn fam_of(net: u64) -> Family {
    if net >= 1000 { Family::L2VPN_EVPN } else { Family::IPV4 }
}

fn nlri_of(net: u64) -> Nlri {
    if net >= 1000 {
        let k = (net - 1000) as u8;
        Nlri::Evpn(packet::evpn::EvpnNlri::MacIpAdvertisement(
            packet::evpn::MacIpAdvertisement {
                rd: packet::rd::RouteDistinguisher::TwoOctetAs { admin: 1, assigned: 1 },
                esi: packet::evpn::Esi::ZERO,
                etag: 0,
                mac: [0, 0, 0, 0, 0, k],
                ip: None,
                label1: 100,
                label2: None,
            },
        ))
    } else {
        Nlri::V4(bgp::Ipv4Net {
            addr: Ipv4Addr::new(10, (net >> 8) as u8, net as u8, 0),
            mask: 24,
        })
    }
}

fn net_of(n: &Nlri) -> u64 {
    match n {
        Nlri::V4(v) => {
            let o = v.addr.octets();
            ((o[1] as u64) << 8) | o[2] as u64
        }
        Nlri::Evpn(packet::evpn::EvpnNlri::MacIpAdvertisement(m)) => 1000 + m.mac[5] as u64,
        _ => 999_999,
    }
}

fn addr_of(a: u64) -> IpAddr {
    IpAddr::V4(Ipv4Addr::new(192, 0, (a >> 8) as u8, a as u8))
}
fn addr_val(a: &IpAddr) -> u64 {
    match a {
        IpAddr::V4(v) => {
            let o = v.octets();
            ((o[2] as u64) << 8) | o[3] as u64
        }
        _ => 999_999,
    }
}

struct World {
    table: Table,
    sources: HashMap<u64, Arc<Source>>,
    attrs: HashMap<u64, Arc<Vec<Attribute>>>,
    origs: HashMap<u64, Arc<Vec<Attribute>>>,
    ctrs: HashMap<u64, Arc<AtomicU64>>,
    families: Vec<Family>,
}

impl World {
    fn src(&mut self, v: &Val) -> Arc<Source> {
        let tok = v.at(0).u64();
        if let Some(s) = self.sources.get(&tok) {
            return s.clone();
        }
        let role = match v.at(3).int() {
            0 => PeerRole::Ebgp,
            1 => PeerRole::RsClient,
            2 => PeerRole::Ibgp,
            3 => PeerRole::IbgpRrClient,
            _ => PeerRole::ConfedEbgp,
        };
        let s = Arc::new(Source::new(
            addr_of(v.at(1).u64()),
            IpAddr::V4(Ipv4Addr::new(192, 0, 2, 254)),
            65000 + v.at(1).u32(),
            65000,
            Ipv4Addr::from(v.at(2).u32()),
            role,
        ));
        self.sources.insert(tok, s.clone());
        s
    }

    // [tok, lp?, segs?, origin?, clen?, oid?, llgr, nollgr, mm?]
    fn attr(&mut self, v: &Val) -> Arc<Vec<Attribute>> {
        let tok = v.at(0).u64();
        if let Some(a) = self.attrs.get(&tok) {
            return a.clone();
        }
        let mut out = Vec::new();
        if let Some(o) = v.at(3).list().first() {
            out.push(Attribute::new_with_value(Attribute::ORIGIN, o.u32()).unwrap());
        }
        if let Some(segs) = v.at(2).list().first() {
            let mut bin = Vec::new();
            for s in segs.list() {
                let t = s.at(0).u8();
                let n = s.at(1).u8();
                bin.push(t);
                bin.push(n);
                for k in 0..n {
                    // AS numbers do not enter the decision order; attribute blocks with an odd
                    // token carry numbers whose octets look like segment headers (type codes
                    // 1-4, small counts), so a walker that loses step with the segment
                    // structure mis-reads them instead of skipping harmless octets
                    let asn = if tok % 2 == 1 {
                        u32::from_be_bytes([1 + (k % 2), 1 + ((k / 2) % 4), 2 - (k % 2), 1 + (k % 3)])
                    } else {
                        64512u32 + k as u32
                    };
                    bin.extend_from_slice(&asn.to_be_bytes());
                }
            }
            out.push(Attribute::new_with_bin(Attribute::AS_PATH, bin).unwrap());
        }
        if let Some(lp) = v.at(1).list().first() {
            out.push(Attribute::new_with_value(Attribute::LOCAL_PREF, lp.u32()).unwrap());
        }
        let llgr = v.at(6).bool();
        let nollgr = v.at(7).bool();
        if llgr || nollgr {
            // the position of the well-known communities in the list varies with the
            // token: after an ordinary community, before it, or alone
            let mut bin = Vec::new();
            let lay = tok % 3;
            if lay == 0 {
                bin.extend_from_slice(&0xfde8_0001u32.to_be_bytes());
            }
            if llgr {
                bin.extend_from_slice(&0xffff_0006u32.to_be_bytes());
            }
            if nollgr {
                bin.extend_from_slice(&0xffff_0007u32.to_be_bytes());
            }
            if lay == 1 {
                bin.extend_from_slice(&0xfde8_0001u32.to_be_bytes());
                bin.extend_from_slice(&0xffff_0001u32.to_be_bytes());
            }
            out.push(Attribute::new_with_bin(Attribute::COMMUNITY, bin).unwrap());
        }
        if let Some(oid) = v.at(5).list().first() {
            out.push(Attribute::new_with_value(Attribute::ORIGINATOR_ID, oid.u32()).unwrap());
        }
        if let Some(cl) = v.at(4).list().first() {
            let mut bin = Vec::new();
            for k in 0..cl.u32() {
                bin.extend_from_slice(&(k + 1).to_be_bytes());
            }
            out.push(Attribute::new_with_bin(Attribute::CLUSTER_LIST, bin).unwrap());
        }
        // MAC mobility extended community in every layout (token mod 4): after an unrelated
        // community, before one, alone with the sticky flag, followed by a second MAC mobility
        // community with another sequence number (the first one counts)
        let unrelated = [0x03u8, 0x0c, 0, 0, 0, 0, 0, 8];
        if let Some(mm) = v.at(8).list().first() {
            let seq = mm.u32();
            let mut bin = Vec::new();
            match tok % 4 {
                0 => {
                    bin.extend_from_slice(&unrelated);
                    bin.extend_from_slice(&[0x06, 0x00, 0x00, 0x00]);
                    bin.extend_from_slice(&seq.to_be_bytes());
                }
                1 => {
                    bin.extend_from_slice(&[0x06, 0x00, 0x00, 0x00]);
                    bin.extend_from_slice(&seq.to_be_bytes());
                    bin.extend_from_slice(&unrelated);
                }
                2 => {
                    bin.extend_from_slice(&[0x06, 0x00, 0x01, 0x00]);
                    bin.extend_from_slice(&seq.to_be_bytes());
                }
                _ => {
                    bin.extend_from_slice(&[0x06, 0x00, 0x00, 0x00]);
                    bin.extend_from_slice(&seq.to_be_bytes());
                    bin.extend_from_slice(&[0x06, 0x00, 0x00, 0x00]);
                    bin.extend_from_slice(&(seq ^ 0x8000_0001).to_be_bytes());
                    // a look-alike: type 0x06 with another subtype
                    bin.extend_from_slice(&[0x06, 0x01, 0, 0, 0xff, 0xff, 0xff, 0xff]);
                }
            }
            out.push(Attribute::new_with_bin(Attribute::EXTENDED_COMMUNITY, bin).unwrap());
        } else if tok % 4 == 3 {
            // extended communities present, none of them MAC mobility (a look-alike subtype)
            let mut bin = Vec::new();
            bin.extend_from_slice(&unrelated);
            bin.extend_from_slice(&[0x06, 0x01, 0, 0, 0xff, 0xff, 0xff, 0xff]);
            out.push(Attribute::new_with_bin(Attribute::EXTENDED_COMMUNITY, bin).unwrap());
        }
        // The order of the attributes in the list is not part of their meaning (an import policy
        // appends what it sets, a peer may send them in any order): the token picks one of the
        // rotations of the list, reversed for every other token, so lookups that assume an
        // ascending list are exercised on lists that are not.
        if out.len() > 1 {
            let r = (tok as usize / 2) % out.len();
            out.rotate_left(r);
            if (tok / 2) % 2 == 1 {
                out.reverse();
            }
        }
        // the attributes as received (original_attr) when import policy replaced the block:
        // another allocation, named by its own token
        if v.list().len() > 9 && v.at(9).u64() != tok {
            let mut pre = out.clone();
            pre.push(Attribute::new_with_value(Attribute::MULTI_EXIT_DESC, 7).unwrap());
            let o = Arc::new(pre);
            self.attrs.insert(v.at(9).u64(), o.clone());
            self.origs.insert(tok, o);
        }
        let a = Arc::new(out);
        self.attrs.insert(tok, a.clone());
        a
    }

    fn ctr(&mut self, id: u64) -> Arc<AtomicU64> {
        self.ctrs.entry(id).or_insert_with(|| Arc::new(AtomicU64::new(0))).clone()
    }

    fn src_tok(&self, s: &Arc<Source>) -> Val {
        for (k, v) in &self.sources {
            if Arc::ptr_eq(v, s) {
                return Val::n(*k);
            }
        }
        Val::I(-3)
    }
    fn attr_tok(&self, a: &Arc<Vec<Attribute>>) -> Val {
        for (k, v) in &self.attrs {
            if Arc::ptr_eq(v, a) {
                return Val::n(*k);
            }
        }
        Val::I(-3)
    }

    fn path_val(&self, p: &rustybgp_table::Path) -> Val {
        Val::L(vec![
            Val::n(p.local_path_id),
            self.src_tok(&p.source),
            self.attr_tok(&p.attr),
            Val::opt(p.nexthop.map(|n| nh_val(&n))),
        ])
    }

    fn change_val(&self, c: &NlriChange) -> Val {
        let paths: Vec<Val> = c.current_paths.iter().map(|p| self.path_val(p)).collect();
        let ecmp: Vec<Val> = c.ecmp_paths().iter().map(|p| self.path_val(p)).collect();
        Val::L(vec![
            Val::n(net_of(&c.net)),
            Val::n(c.dest_id),
            Val::b(c.best_changed),
            Val::b(c.any_changed),
            Val::opt(c.replaced_path_id.map(Val::n)),
            Val::L(paths),
            Val::L(ecmp),
        ])
    }

    fn state_val(&self, addrs: &[u64], ctrs: &[u64]) -> Val {
        let mut loc = Vec::new();
        let mut dests = Vec::new();
        let (mut nd, mut np, mut na) = (0usize, 0usize, 0usize);
        for f in &self.families {
            for c in self.table.collect_loc_rib_paths(f) {
                loc.push(self.change_val(&c));
            }
            for d in self.table.destinations(TableQuery::Global, *f, vec![], true) {
                let ps: Vec<Val> = d
                    .paths
                    .iter()
                    .map(|p| {
                        Val::L(vec![
                            Val::n(p.remote_path_id),
                            self.src_tok(&p.source),
                            self.attr_tok(&p.attr),
                            Val::b(p.filtered),
                            Val::b(p.stale),
                        ])
                    })
                    .collect();
                dests.push(Val::L(vec![Val::n(net_of(&d.net)), Val::L(ps)]));
            }
            let st = self.table.state(*f);
            nd += st.num_destination;
            np += st.num_path;
            na += st.num_accepted;
        }
        let stats: Vec<Val> = addrs
            .iter()
            .map(|a| {
                let ip = addr_of(*a);
                let mut r = 0u64;
                let mut c = 0u64;
                let mut any = false;
                if let Some(it) = self.table.peer_stats(&ip) {
                    for (_f, s) in it {
                        any = true;
                        r += s.received;
                        c += s.accepted;
                    }
                }
                if any {
                    Val::L(vec![Val::n(*a), Val::n(r), Val::n(c)])
                } else {
                    Val::L(vec![Val::n(*a)])
                }
            })
            .collect();
        let cv: Vec<Val> = ctrs
            .iter()
            .map(|c| Val::I(self.ctrs.get(c).map(|x| x.load(Ordering::Relaxed)).unwrap_or(0) as i128))
            .collect();
        let mut rs = Vec::new();
        for a in addrs {
            let mut per = Vec::new();
            for f in &self.families {
                // every prefix of the family, with the RS-local selection if any
                let sel: HashMap<u64, Val> = self
                    .table
                    .destinations(TableQuery::RsLocal(addr_of(*a)), *f, vec![], false)
                    .map(|d| {
                        let p = &d.paths[0];
                        (
                            net_of(&d.net),
                            Val::L(vec![Val::n(net_of(&d.net)), self.src_tok(&p.source), self.attr_tok(&p.attr)]),
                        )
                    })
                    .collect();
                for d in self.table.destinations(TableQuery::Global, *f, vec![], true) {
                    let n = net_of(&d.net);
                    per.push(sel.get(&n).cloned().unwrap_or(Val::L(vec![Val::n(n)])));
                }
            }
            rs.push(Val::L(vec![Val::n(*a), Val::L(per)]));
        }
        // read-only views
        let mut lim = Vec::new();
        for m in [1usize, 2] {
            let mut l = Vec::new();
            for f in &self.families {
                for c in self.table.collect_loc_rib_paths_limited(f, m) {
                    let paths: Vec<Val> = c.current_paths.iter().map(|p| self.path_val(p)).collect();
                    l.push(Val::L(vec![Val::n(net_of(&c.net)), Val::L(paths)]));
                }
            }
            lim.push(Val::L(l));
        }
        let mut adj = Vec::new();
        for a in addrs {
            let ip = addr_of(*a);
            let mut per = Vec::new();
            for f in &self.families {
                let mut views: Vec<HashMap<u64, Vec<Val>>> = Vec::new();
                for flt in [false, true] {
                    let mut m: HashMap<u64, Vec<Val>> = HashMap::new();
                    for d in self.table.destinations(TableQuery::AdjIn(ip), *f, vec![], flt) {
                        let ps = d
                            .paths
                            .iter()
                            .map(|p| {
                                Val::L(vec![
                                    Val::n(p.remote_path_id),
                                    self.src_tok(&p.source),
                                    self.attr_tok(&p.attr),
                                    Val::b(p.filtered),
                                ])
                            })
                            .collect();
                        m.insert(net_of(&d.net), ps);
                    }
                    views.push(m);
                }
                for stale in [false, true] {
                    let mut m: HashMap<u64, Vec<Val>> = HashMap::new();
                    for (_fam, net, rpid, nh, src, _attr, _ts) in self.table.collect_adj_in_paths(ip, Some(*f), stale) {
                        m.entry(net_of(&net)).or_default().push(Val::L(vec![
                            Val::n(rpid),
                            self.src_tok(&src),
                            Val::opt(nh.map(|n| nh_val(&n))),
                            self.attr_tok(&_attr),
                        ]));
                    }
                    views.push(m);
                }
                for d in self.table.destinations(TableQuery::Global, *f, vec![], true) {
                    let n = net_of(&d.net);
                    let mut rec = vec![Val::n(n)];
                    for v in &views {
                        rec.push(Val::L(v.get(&n).cloned().unwrap_or_default()));
                    }
                    per.push(Val::L(rec));
                }
            }
            adj.push(Val::L(vec![Val::n(*a), Val::L(per)]));
        }
        Val::L(vec![
            Val::L(loc),
            Val::L(dests),
            Val::L(vec![Val::us(nd), Val::us(np), Val::us(na)]),
            Val::L(stats),
            Val::L(cv),
            Val::b(false),
            Val::L(rs),
            Val::L(vec![lim[0].clone(), lim[1].clone(), Val::L(adj)]),
        ])
    }
}

// Next hop number n in its wire form: the table stores the form as received and tracks the
// ADDRESS (the global part); numbers 2 mod 3 are IPv6 global + link-local (32 octets on the
// wire), 0 mod 3 a plain IPv6 address, the rest IPv4.
fn nh_of(n: u64) -> Nexthop {
    let g = std::net::Ipv6Addr::new(0x2001, 0xdb8, 0, 0, 0, 0, (n >> 8) as u16, n as u16 & 0xff);
    match n % 3 {
        2 => Nexthop::V6LinkLocal(g, std::net::Ipv6Addr::new(0xfe80, 0, 0, 0, 0, 0, 0, n as u16)),
        0 => Nexthop::V6(g),
        _ => Nexthop::V4(Ipv4Addr::new(172, 16, (n >> 8) as u8, n as u8)),
    }
}
fn nh_val(n: &Nexthop) -> Val {
    match n {
        Nexthop::V4(a) => {
            let o = a.octets();
            Val::n(((o[2] as u64) << 8) | o[3] as u64)
        }
        Nexthop::V6(a) | Nexthop::V6LinkLocal(a, _) => {
            let s = a.segments();
            Val::n(((s[6] as u64) << 8) | s[7] as u64)
        }
    }
}

// case = [shard, addrs, ctrs, fam_mode, ops]
// the model describes one family: cases use either IPv4 prefixes (< 1000) or
// EVPN type-2 prefixes (>= 1000), never both
fn run_rib_case(case: &Val) -> Val {
    let shard = case.at(0).u32();
    let addrs: Vec<u64> = case.at(1).list().iter().map(|v| v.u64()).collect();
    let ctrs: Vec<u64> = case.at(2).list().iter().map(|v| v.u64()).collect();
    let evpn = case.at(3).bool();
    let fam = if evpn { Family::L2VPN_EVPN } else { Family::IPV4 };
    let mut w = World {
        table: Table::new(shard),
        sources: HashMap::new(),
        attrs: HashMap::new(),
        origs: HashMap::new(),
        ctrs: HashMap::new(),
        families: vec![fam],
    };
    let mut obs = Vec::new();
    for op in case.at(4).list() {
        let l = op.list();
        let mut changes: Vec<NlriChange> = Vec::new();
        let mut limit = false;
        match l[0].int() {
            // [0, src, net, rpid, nh?, attrs, filtered, nhinv, limit?]
            0 => {
                let s = w.src(&l[1]);
                let net = l[2].u64();
                let a = w.attr(&l[5]);
                let lim = l[8].list().first().map(|p| (p.at(0).u32(), w.ctr(p.at(1).u64())));
                let r = w.table.insert(
                    s,
                    fam_of(net),
                    nlri_of(net),
                    l[3].u32(),
                    l[4].list().first().map(|n| nh_of(n.u64())),
                    a,
                    w.origs.get(&l[5].at(0).u64()).cloned(),
                    l[6].bool(),
                    l[7].bool(),
                    lim.as_ref().map(|(m, c)| (*m, c)),
                    0,
                );
                match r {
                    InsertResult::Changed(c) => changes.push(c),
                    InsertResult::PrefixLimitExceeded => limit = true,
                    InsertResult::NoChange => {}
                }
            }
            // [1, src, net, rpid, ctr?]
            1 => {
                let s = w.src(&l[1]);
                let net = l[2].u64();
                let c = l[4].list().first().map(|c| w.ctr(c.u64()));
                let (ch, _nh) = w.table.remove(s, fam_of(net), nlri_of(net), l[3].u32(), c.as_ref());
                if let Some(c) = ch {
                    changes.push(c);
                }
            }
            // [2, kind, addr, ctr?]
            2 => {
                let addr = addr_of(l[2].u64());
                let c = l[3].list().first().map(|c| w.ctr(c.u64()));
                // The daemon purges family by family (unregister_peer, the timer handlers): the same
                // purge of a family in which nobody holds a route comes first and must be a no-op for
                // the family under test (its changes, if any, are observed like the others).
                let shadow = Family::IPV6;
                let (mut chs0, _) = match l[1].int() {
                    0 => w.table.drop(addr, shadow),
                    1 => w.table.drop_stale(addr, shadow, c.as_ref()),
                    2 => w.table.drop_llgr_stale(addr, shadow, c.as_ref()),
                    _ => w.table.drop_no_llgr(addr, shadow, c.as_ref()),
                };
                let (chs, _nhs) = match l[1].int() {
                    0 => w.table.drop(addr, fam),
                    1 => w.table.drop_stale(addr, fam, c.as_ref()),
                    2 => w.table.drop_llgr_stale(addr, fam, c.as_ref()),
                    _ => w.table.drop_no_llgr(addr, fam, c.as_ref()),
                };
                chs0.extend(chs);
                changes = chs0;
            }
            // [3, llgr, addr]
            3 => {
                let addr = addr_of(l[2].u64());
                // what the daemon does to the peer's OTHER families at the same moment, on a family
                // in which nobody holds a route: at a graceful-restart drop the families without GR
                // are dropped (TableManager::unregister_peer), at the start of the LLGR period the
                // other LLGR families are marked too; neither may touch the family under test
                changes = if l[1].bool() {
                    w.table.restale_llgr(addr, Family::IPV6)
                } else {
                    let mut c0 = w.table.drop(addr, Family::IPV6).0;
                    c0.extend(w.table.restale(addr, Family::IPV6_MC));
                    c0
                };
                changes.extend(if l[1].bool() {
                    w.table.restale_llgr(addr, fam)
                } else {
                    w.table.restale(addr, fam)
                });
            }
            // [4, nh, reachable]
            4 => {
                let nh = nh_of(l[1].u64()).addr();
                changes = w.table.update_nexthop_validity(nh, l[2].bool());
            }
            // [7, counter, addr]: PeerSession::sync_prefix_counters of the daemon, counter := prefixes
            // the RIB holds from the peer (route_stats received)
            7 => {
                let n = w
                    .table
                    .peer_stats(&addr_of(l[2].u64()))
                    .map(|it| it.filter(|(f, _)| *f == fam).map(|(_, s)| s.received).sum::<u64>())
                    .unwrap_or(0);
                w.ctr(l[1].u64()).store(n, Ordering::Relaxed);
            }
            5 => w.table.start_deferral(fam),
            6 => changes = w.table.end_deferral(fam),
            // [8, start]: the Restarting-Speaker deferral of ANOTHER family (IPv6 unicast; the family under test is
            // IPv4 or EVPN) starts / ends: it may not touch the family under test (the model's operation is a no-op)
            8 => {
                if l[1].bool() {
                    w.table.start_deferral(Family::IPV6)
                } else {
                    changes = w.table.end_deferral(Family::IPV6)
                }
            }
            t => panic!("verif: bad op tag {}", t),
        }
        let cv: Vec<Val> = changes.iter().map(|c| w.change_val(c)).collect();
        obs.push(Val::L(vec![Val::L(cv), Val::b(limit), w.state_val(&addrs, &ctrs)]));
    }
    let _ = addr_val;
    Val::L(obs)
}

fn main() {
    let mode = std::env::args().nth(1).unwrap_or_default();
    match mode.as_str() {
        "rib" => val::run_cases(run_rib_case),
        m => panic!("unknown mode {}", m),
    }
}
