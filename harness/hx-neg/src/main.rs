// Correspondence harness for the packet-crate half of property C16:
// IpNet::contains and PeerCodec::negotiate through their public API.
#[allow(dead_code)]
mod val {
    include!(concat!(env!("VERIF_HX_DIR"), "/common/val.rs"));
}
#[allow(dead_code)]
mod caps {
    include!(concat!(env!("VERIF_HX_DIR"), "/common/caps.rs"));
}
use caps::*;
use val::Val;

use rustybgp_packet::bgp::{Capability, IpNet, PeerCodec};
use std::net::{IpAddr, Ipv4Addr, Ipv6Addr};

fn addr_of(v: &Val) -> IpAddr {
    let o = v.at(1).bytes();
    if v.at(0).int() == 4 {
        IpAddr::V4(Ipv4Addr::new(o[0], o[1], o[2], o[3]))
    } else {
        let mut a = [0u8; 16];
        a.copy_from_slice(&o);
        IpAddr::V6(Ipv6Addr::from(a))
    }
}

fn neg_val(l: &[Capability], r: &[Capability], fams: &Val) -> Vec<Val> {
    let c = PeerCodec::negotiate(l, r);
    let fs = fams
        .list()
        .iter()
        .map(|fv| {
            let f = fam_of(fv);
            match c.family_state(f) {
                Some(s) => Val::L(vec![fam_val(&f), Val::n(1u8), Val::b(s.addpath_rx), Val::b(s.addpath_tx)]),
                None => Val::L(vec![fam_val(&f), Val::n(0u8), Val::n(0u8), Val::n(0u8)]),
            }
        })
        .collect();
    // every negotiated family must be one the generator listed
    let listed = |f: &rustybgp_packet::bgp::Family| fams.list().iter().any(|fv| fam_of(fv) == *f);
    assert!(c.families_iter().all(|f| listed(&f)), "negotiated family outside the listed ones");
    vec![Val::L(fs), Val::b(c.extended_length), Val::b(c.two_byte_as)]
}

fn run_case(case: &Val) -> Val {
    let l = case.list();
    match l[0].int() {
        0 => {
            // [0, [4|6, octets, mask], [4|6, octets]]
            let net = IpNet::new(addr_of(&l[1]), l[1].at(2).u8());
            let addr = addr_of(&l[2]);
            // a panic inside contains is an observation of its own, not of the harness
            let r = std::panic::catch_unwind(|| net.contains(&addr));
            match r {
                Ok(b) => Val::L(vec![Val::b(b)]),
                Err(_) => Val::L(vec![Val::I(-1)]),
            }
        }
        1 => {
            // [1, local caps, remote caps, families]
            let lc = caps_of(&l[1]);
            let rc = caps_of(&l[2]);
            let mut v = neg_val(&lc, &rc, &l[3]);
            v.extend(neg_val(&rc, &lc, &l[3]));
            Val::L(v)
        }
        t => panic!("verif: bad case tag {}", t),
    }
}

fn main() {
    val::run_cases(run_case);
}
