// Correspondence harness for property C12: drives the public API of
// rustybgp_table::RpkiTable (insert / remove / drop_source / iter / validate)
// and rustybgp_packet::Attribute::as_path_origin (through validate) on the
// cases written by gen/c12.py and prints canonical observations.
//
//   case = [op, ...]
//   net  = [4|6, [address octets], mask]
//   op   = [0, src, net, maxlen, asn]            RpkiTable::insert
//        | [1, src, net, maxlen, asn]            RpkiTable::remove
//        | [2, src]                              RpkiTable::drop_source
//        | [3, src, [[net, maxlen, asn], ...]]   drop_source + inserts (= TableManager::rpki_reset)
//        | [4, net, local_asn, [[code, [bytes]], ...]]   RpkiTable::validate, and the policy consumer:
//                                                 apply_import of three import assignments, each one policy
//                                                 with one statement `Condition::Rpki(state) -> accept`
//                                                 (default reject), on the same table / route / attributes
//          net may also be a non-IP NLRI of the same prefix: [14|16, octets, mask] labeled unicast,
//          [24|26, octets, mask] VPN (validate must give no result for them)
//        | [5]                                   RpkiTable::iter, both families
//   observation per op:
//     mutations and [5]:  [vrp, ...]   vrp = [4|6, [octets], mask, maxlen, asn, src]   (IPv4 first)
//     validate:           [v, [p_notfound, p_valid, p_invalid]]
//                         v = [] for None, [[state, reason, matched, unmatched_asn, unmatched_length]]
//                         state NotFound=0 Valid=1 Invalid=2, reason None=0 Asn=1 Length=2
//                         p_x = 1 when the statement `rpki x -> accept` accepted the route
use std::net::{IpAddr, Ipv4Addr, Ipv6Addr};
use std::sync::Arc;

use rustybgp_packet as packet;
use rustybgp_packet::Family;
use rustybgp_table as table;
use rustybgp_table::{Roa, RpkiTable, RpkiValidationReason, RpkiValidationState, Source};

#[allow(dead_code)]
mod val {
    include!(concat!(env!("VERIF_HX_DIR"), "/common/val.rs"));
}
use val::Val;

const NSRC: usize = 8;

fn addr_of(fam: i128, bytes: &[u8]) -> IpAddr {
    if fam == 4 {
        let mut o = [0u8; 4];
        o.copy_from_slice(bytes);
        IpAddr::V4(Ipv4Addr::from(o))
    } else {
        let mut o = [0u8; 16];
        o.copy_from_slice(bytes);
        IpAddr::V6(Ipv6Addr::from(o))
    }
}

fn ipnet_of(v: &Val) -> packet::IpNet {
    packet::IpNet::new(addr_of(v.at(0).int(), &v.at(1).bytes()), v.at(2).u8())
}

fn nlri_of(v: &Val) -> packet::Nlri {
    let tag = v.at(0).int();
    let labels = || packet::mpls::MplsLabelStack::new(vec![packet::mpls::MplsLabel::new(100)]);
    let rd = packet::rd::RouteDistinguisher::TwoOctetAs { admin: 65000, assigned: 1 };
    match addr_of(tag % 10, &v.at(1).bytes()) {
        IpAddr::V4(addr) => {
            let prefix = packet::bgp::Ipv4Net { addr, mask: v.at(2).u8() };
            match tag {
                4 => packet::Nlri::V4(prefix),
                14 => packet::Nlri::LabeledV4(packet::labeled::LabeledV4Nlri { labels: labels(), prefix }),
                _ => packet::Nlri::VpnV4(packet::vpn::VpnV4Nlri { labels: labels(), rd, prefix }),
            }
        }
        IpAddr::V6(addr) => {
            let prefix = packet::bgp::Ipv6Net { addr, mask: v.at(2).u8() };
            match tag {
                6 => packet::Nlri::V6(prefix),
                16 => packet::Nlri::LabeledV6(packet::labeled::LabeledV6Nlri { labels: labels(), prefix }),
                _ => packet::Nlri::VpnV6(packet::vpn::VpnV6Nlri { labels: labels(), rd, prefix }),
            }
        }
    }
}

/// three import assignments: `rpki <state> -> accept`, default reject
fn rpki_assignments() -> Vec<Arc<table::PolicyAssignment>> {
    let mut pt = table::PolicyTable::new();
    let mut out = Vec::new();
    for (k, st) in [
        RpkiValidationState::NotFound,
        RpkiValidationState::Valid,
        RpkiValidationState::Invalid,
    ]
    .into_iter()
    .enumerate()
    {
        let sname = format!("s{}", k);
        let pname = format!("p{}", k);
        pt.add_statement(
            &sname,
            vec![table::ConditionConfig::Rpki(st)],
            Some(table::Disposition::Accept),
            table::Actions::default(),
        )
        .ok()
        .expect("add_statement");
        pt.add_policy(&pname, vec![sname]).ok().expect("add_policy");
        let a = pt
            .build_assignment(
                None,
                "verif",
                table::PolicyDirection::Import,
                table::Disposition::Reject,
                vec![pname],
            )
            .ok()
            .expect("build_assignment");
        out.push(a);
    }
    out
}

fn src_index(srcs: &[Arc<IpAddr>], s: &Arc<IpAddr>) -> Val {
    for (i, x) in srcs.iter().enumerate() {
        if Arc::ptr_eq(x, s) {
            return Val::us(i);
        }
    }
    Val::I(-2)
}

fn vrp_val(srcs: &[Arc<IpAddr>], net: &packet::IpNet, roa: &Roa) -> Val {
    let (fam, bytes, mask) = match net {
        packet::IpNet::V4(n) => (4u8, n.addr.octets().to_vec(), n.mask),
        packet::IpNet::V6(n) => (6u8, n.addr.octets().to_vec(), n.mask),
    };
    Val::L(vec![
        Val::n(fam),
        Val::from_bytes(&bytes),
        Val::n(mask),
        Val::n(roa.max_length),
        Val::n(roa.as_number),
        src_index(srcs, &roa.source),
    ])
}

fn dump(srcs: &[Arc<IpAddr>], t: &RpkiTable) -> Val {
    let mut out = Vec::new();
    for fam in [Family::IPV4, Family::IPV6] {
        for (net, roa) in t.iter(fam) {
            out.push(vrp_val(srcs, &net, roa));
        }
    }
    Val::L(out)
}

fn run_case(case: &Val) -> Val {
    // cache identities: one Arc per index, all with *different* allocations;
    // two of them share the same IP address value on purpose (identity is the Arc)
    let srcs: Vec<Arc<IpAddr>> = (0..NSRC)
        .map(|i| Arc::new(IpAddr::V4(Ipv4Addr::new(192, 0, 2, (i / 2) as u8))))
        .collect();
    let mut t = RpkiTable::new();
    let assignments = rpki_assignments();
    let mut obs = Vec::new();
    for op in case.list() {
        match op.at(0).int() {
            0 => {
                let roa = Arc::new(Roa::new(op.at(3).u8(), op.at(4).u32(), srcs[op.at(1).usize()].clone()));
                t.insert(ipnet_of(op.at(2)), roa);
                obs.push(dump(&srcs, &t));
            }
            1 => {
                let roa = Roa::new(op.at(3).u8(), op.at(4).u32(), srcs[op.at(1).usize()].clone());
                t.remove(ipnet_of(op.at(2)), &roa);
                obs.push(dump(&srcs, &t));
            }
            2 => {
                t.drop_source(srcs[op.at(1).usize()].clone());
                obs.push(dump(&srcs, &t));
            }
            3 => {
                let s = srcs[op.at(1).usize()].clone();
                t.drop_source(s.clone());
                for r in op.at(2).list() {
                    t.insert(ipnet_of(r.at(0)), Arc::new(Roa::new(r.at(1).u8(), r.at(2).u32(), s.clone())));
                }
                obs.push(dump(&srcs, &t));
            }
            4 => {
                let local_asn = op.at(2).u32();
                let source = Arc::new(Source::new(
                    IpAddr::V4(Ipv4Addr::new(10, 0, 0, 1)),
                    IpAddr::V4(Ipv4Addr::new(10, 0, 0, 254)),
                    64999,
                    local_asn,
                    Ipv4Addr::new(1, 1, 1, 1),
                    table::PeerRole::Ebgp,
                ));
                let mut attrs = Vec::new();
                for a in op.at(3).list() {
                    let code = a.at(0).u8();
                    if code == packet::Attribute::AS_PATH {
                        attrs.push(packet::Attribute::new_with_bin(code, a.at(1).bytes()).expect("as_path"));
                    } else {
                        attrs.push(packet::Attribute::new_with_value(code, 0).expect("value attribute"));
                    }
                }
                let attrs = Arc::new(attrs);
                let nlri = nlri_of(op.at(1));
                let r = t.validate(&source, &nlri, &attrs);
                let vobs = Val::opt(r.map(|r| {
                    let st = match r.state {
                        RpkiValidationState::NotFound => 0u8,
                        RpkiValidationState::Valid => 1,
                        RpkiValidationState::Invalid => 2,
                    };
                    let rs = match r.reason {
                        RpkiValidationReason::None => 0u8,
                        RpkiValidationReason::Asn => 1,
                        RpkiValidationReason::Length => 2,
                    };
                    let l = |v: &Vec<(packet::IpNet, Roa)>| {
                        Val::L(v.iter().map(|(n, r)| vrp_val(&srcs, n, r)).collect())
                    };
                    Val::L(vec![
                        Val::n(st),
                        Val::n(rs),
                        l(&r.matched),
                        l(&r.unmatched_asn),
                        l(&r.unmatched_length),
                    ])
                }));
                let mut pol = Vec::new();
                for a in &assignments {
                    let mut nh = None;
                    // as TableManager::apply_import: the table is handed over only when the assignment needs it
                    let rp = a.needs_rpki.then_some(&t);
                    let (filtered, _) = table::apply_import(a, rp, &source, &nlri, &attrs, &mut nh);
                    pol.push(Val::b(!filtered));
                }
                obs.push(Val::L(vec![vobs, Val::L(pol)]));
            }
            5 => obs.push(dump(&srcs, &t)),
            k => panic!("verif: bad op tag {}", k),
        }
    }
    Val::L(obs)
}

fn main() {
    val::run_cases(run_case);
}
