// Correspondence harness for daemon/src/convert.rs (property C17).
// Included as the body of `convert::verif_hx` under cfg(all(test, osrg_rustybgp_verif)).
//
// Case kinds (first element):
//   0  [0, flags, code, value]         one path attribute as it arrives on the wire: decoded by
//                                      PeerCodec::parse_message, then attr_to_api / attr_from_api
//   1  [1, api_attr]                   an API attribute message: attr_from_api, then the consumers
//   2  [2, family, api_nlri]           an API NLRI message: net_from_api, then nlri_to_api/encode
//   3  [3, family, nlri wire bytes]    NLRIs decoded from an MP_REACH / classic UPDATE, round trip
//   4  [4, addpath, update body]       wide differential part: a whole UPDATE (any family, any
//                                      attribute kind), every decoded attribute and NLRI round-tripped
use super::*;

#[allow(dead_code)]
mod val {
    include!(concat!(env!("VERIF_HX_DIR"), "/common/val.rs"));
}
use val::Val;

#[allow(dead_code)]
mod c17_api {
    include!(concat!(env!("VERIF_HX_DIR"), "/common/c17_api.rs"));
}
use c17_api::*;

use rustybgp_packet::bgp::{self, PeerCodec};
use std::panic::{AssertUnwindSafe, catch_unwind};
use std::sync::Arc;

fn update_with_attrs(attr_bytes: &[u8], nlri: &[u8]) -> Vec<u8> {
    let total = 16 + 2 + 1 + 2 + 2 + attr_bytes.len() + nlri.len();
    let mut msg = Vec::with_capacity(total);
    msg.extend_from_slice(&[0xff; 16]);
    msg.extend_from_slice(&(total as u16).to_be_bytes());
    msg.push(2);
    msg.extend_from_slice(&[0, 0]);
    msg.extend_from_slice(&(attr_bytes.len() as u16).to_be_bytes());
    msg.extend_from_slice(attr_bytes);
    msg.extend_from_slice(nlri);
    msg
}

fn wire_attr(flags: u8, code: u8, data: &[u8]) -> Vec<u8> {
    let mut b = vec![flags, code];
    if flags & 0x10 != 0 {
        b.extend_from_slice(&(data.len() as u16).to_be_bytes());
    } else {
        b.push(data.len() as u8);
    }
    b.extend_from_slice(data);
    b
}

fn from_api_val(r: Result<Attribute, Error>) -> Val {
    match r {
        Ok(a) => Val::L(vec![i(1), attr_val(&a)]),
        Err(_) => Val::L(vec![i(0)]),
    }
}

fn caught<F: FnOnce() -> Val>(f: F) -> Val {
    match catch_unwind(AssertUnwindSafe(f)) {
        Ok(v) => v,
        Err(_) => Val::L(vec![i(-1)]),
    }
}

// kind 0
fn run_wire(l: &[Val]) -> Val {
    let flags = l[1].u8();
    let code = l[2].u8();
    let data = l[3].bytes();
    let msg = update_with_attrs(&wire_attr(flags, code, &data), &[]);
    let mut codec = PeerCodec::new();
    codec.extended_length = true;
    let attrs = match codec.parse_message(&msg) {
        Ok(bgp::ParsedMessage::Update(bgp::ParsedUpdate::Routes {
            attrs, error_attrs, ..
        })) => {
            if error_attrs.is_empty() { attrs } else { Vec::new() }
        }
        _ => Vec::new(),
    };
    let Some(a) = attrs.first() else {
        return Val::L(vec![i(0)]);
    };
    let apiv = caught(|| api_val(&attr_to_api(a)));
    let rt = caught(|| from_api_val(attr_from_api(attr_to_api(a))));
    Val::L(vec![i(1), attr_val(a), apiv, rt])
}

// GrpcService::local_path's assembly of the attribute list (event/grpc.rs): MP_REACH and
// NEXT_HOP go to the nexthop field, ORIGINATOR_ID / CLUSTER_LIST / MP_UNREACH are dropped,
// ORIGIN igp and an empty AS_PATH are supplied when absent.
fn local_path_attrs(a: &Attribute) -> Vec<Attribute> {
    let mut attr = Vec::new();
    match a.code() {
        Attribute::MP_REACH
        | Attribute::NEXTHOP
        | Attribute::ORIGINATOR_ID
        | Attribute::CLUSTER_LIST
        | Attribute::MP_UNREACH => {}
        _ => attr.push(a.clone()),
    }
    if !attr.iter().any(|a| a.code() == Attribute::ORIGIN) {
        attr.push(Attribute::new_with_value(Attribute::ORIGIN, 0).unwrap());
    }
    if !attr.iter().any(|a| a.code() == Attribute::AS_PATH) {
        attr.push(Attribute::empty_as_path());
    }
    attr
}

fn insert_next_to_competitor(a: &Attribute) -> Val {
    use rustybgp_table::{InsertResult, PeerRole, Source, Table};
    use std::net::IpAddr;
    let mut t = Table::new(0);
    let mk = |k: u8| {
        Arc::new(Source::new(
            IpAddr::V4(Ipv4Addr::new(192, 0, 2, k)),
            IpAddr::V4(Ipv4Addr::new(192, 0, 2, 254)),
            65000 + k as u32,
            65000,
            Ipv4Addr::from(k as u32),
            PeerRole::Ebgp,
        ))
    };
    let net = Nlri::V4(Ipv4Net { addr: Ipv4Addr::new(10, 0, 0, 0), mask: 8 });
    let nh = Some(bgp::Nexthop::V4(Ipv4Addr::new(192, 0, 2, 1)));
    let comp = vec![
        Attribute::new_with_value(Attribute::ORIGIN, 0).unwrap(),
        Attribute::empty_as_path(),
    ];
    let _ = t.insert(mk(1), Family::IPV4, net.clone(), 0, nh, Arc::new(comp), None, false, false, None, 0);
    let newsrc = mk(2);
    let r = t.insert(
        newsrc.clone(),
        Family::IPV4,
        net,
        0,
        nh,
        Arc::new(local_path_attrs(a)),
        None,
        false,
        false,
        None,
        0,
    );
    match r {
        InsertResult::Changed(ch) => {
            let first_is_new = ch
                .current_paths
                .first()
                .map(|p| Arc::ptr_eq(&p.source, &newsrc))
                .unwrap_or(false);
            Val::b(first_is_new)
        }
        _ => i(-3),
    }
}

fn downstream(a: &Attribute) -> Val {
    let aspl = if a.code() == Attribute::AS_PATH {
        caught(|| Val::us(a.as_path_length()))
    } else {
        Val::L(vec![i(-2)])
    };
    let enc = caught(|| Val::us(a.encode_to_bytes().len()));
    let list = caught(|| {
        let _ = attr_to_api(a);
        i(0)
    });
    let ins = caught(|| insert_next_to_competitor(a));
    // listed and given back: 0 the same value, 1 another value, 2 refused
    let relist = if matches!(a.code(), Attribute::TUNNEL_ENCAP | Attribute::LS | Attribute::PREFIX_SID) {
        i(0)
    } else {
        caught(|| match attr_from_api(attr_to_api(a)) {
            Ok(b) => i(if &b == a { 0 } else { 1 }),
            Err(_) => i(2),
        })
    };
    Val::L(vec![aspl, enc, list, ins, relist])
}

// kind 1
fn run_api(l: &[Val]) -> Val {
    let x = api_of(&l[1]);
    match attr_from_api(x) {
        Err(_) => Val::L(vec![i(0)]),
        Ok(a) => Val::L(vec![i(1), attr_val(&a), downstream(&a)]),
    }
}

// ---------------------------------------------------------------- NLRI
fn net_from_api_val(r: Result<Nlri, Error>) -> Val {
    match r {
        Ok(n) => Val::L(vec![i(1), nlri_val(&n)]),
        Err(_) => Val::L(vec![i(0)]),
    }
}

// kind 2: an API NLRI message
fn run_api_nlri(l: &[Val]) -> Val {
    match net_from_api(api_nlri_of(&l[1]), Family::IPV4) {
        Err(_) => Val::L(vec![i(0)]),
        Ok(n) => {
            let enc = caught(|| Val::from_bytes(&n.encode_to_bytes()));
            let relist = caught(|| net_from_api_val(net_from_api(nlri_to_api(&n), Family::IPV4)));
            Val::L(vec![i(1), nlri_val(&n), enc, relist])
        }
    }
}

// kind 3: an internal NLRI value
fn run_nlri(l: &[Val]) -> Val {
    let n = nlri_of(&l[1]);
    let x = nlri_to_api(&n);
    let back = net_from_api(x.clone(), Family::IPV4);
    Val::L(vec![api_nlri_val(&x), net_from_api_val(back)])
}

// ---------------------------------------------------------------- kind 4: the wide differential part
const ALL_FAMILIES: [Family; 19] = [
    Family::IPV4,
    Family::IPV6,
    Family::IPV4_MC,
    Family::IPV6_MC,
    Family::IPV4_MPLS,
    Family::IPV6_MPLS,
    Family::LS,
    Family::IPV4_MUP,
    Family::IPV6_MUP,
    Family::IPV4_VPN,
    Family::IPV6_VPN,
    Family::IPV4_FLOWSPEC,
    Family::IPV6_FLOWSPEC,
    Family::IPV4_FLOWSPEC_VPN,
    Family::IPV6_FLOWSPEC_VPN,
    Family::IPV4_SRPOLICY,
    Family::IPV6_SRPOLICY,
    Family::L2VPN_EVPN,
    Family::RTC,
];

fn fam_u32(f: Family) -> u32 {
    ((f.afi() as u32) << 16) | f.safi() as u32
}

// round-trip status of one held attribute: 0 equal, 1 differs, 2 rejected, 3 only the flags
// differ, -1 attr_to_api panicked, -2 attr_from_api panicked
fn attr_rt_status(a: &Attribute) -> (i128, Option<Attribute>) {
    let x = match catch_unwind(AssertUnwindSafe(|| attr_to_api(a))) {
        Ok(x) => x,
        Err(_) => return (-1, None),
    };
    match catch_unwind(AssertUnwindSafe(|| attr_from_api(x))) {
        Err(_) => (-2, None),
        Ok(Err(_)) => (2, None),
        Ok(Ok(b)) => {
            if &b == a {
                (0, None)
            } else if b.code() == a.code()
                && b.value() == a.value()
                && b.binary() == a.binary()
                && b.is_opaque() == a.is_opaque()
            {
                (3, None)
            } else {
                (1, Some(b))
            }
        }
    }
}

fn nlri_rt_status(n: &Nlri, family: Family) -> (i128, Option<Nlri>) {
    let x = match catch_unwind(AssertUnwindSafe(|| nlri_to_api(n))) {
        Ok(x) => x,
        Err(_) => return (-1, None),
    };
    match catch_unwind(AssertUnwindSafe(|| net_from_api(x, family))) {
        Err(_) => (-2, None),
        Ok(Err(_)) => (2, None),
        Ok(Ok(b)) => {
            if &b == n { (0, None) } else { (1, Some(b)) }
        }
    }
}

// [4, opts, message bytes]: opts bit0 = two-octet-AS session, bit1 = ADD-PATH receive
fn run_wide(l: &[Val]) -> Val {
    let opts = l[1].u8();
    let msg = l[2].bytes();
    let mut codec = PeerCodec::new();
    codec.extended_length = true;
    codec.two_byte_as = opts & 1 != 0;
    for f in ALL_FAMILIES {
        codec.set_family(f, bgp::FamilyState { addpath_rx: opts & 2 != 0, addpath_tx: false });
    }
    let (attrs, nets) = match codec.parse_message(&msg) {
        Ok(bgp::ParsedMessage::Update(bgp::ParsedUpdate::Routes {
            reach,
            mp_reach,
            unreach,
            mp_unreach,
            attrs,
            ..
        })) => {
            let mut nets: Vec<(Family, Nlri)> = Vec::new();
            for r in [reach, mp_reach].into_iter().flatten() {
                for e in r.entries {
                    nets.push((r.family, e.nlri));
                }
            }
            for r in [unreach, mp_unreach].into_iter().flatten() {
                for e in r.entries {
                    nets.push((r.family, e.nlri));
                }
            }
            (attrs, nets)
        }
        _ => return Val::L(vec![i(0)]),
    };
    let av = attrs
        .iter()
        .map(|a| {
            let (st, back) = attr_rt_status(a);
            let mut v = vec![
                Val::n(a.code()),
                Val::n(a.flags()),
                i(if a.value().is_some() { 0 } else if a.is_opaque() { 2 } else { 1 }),
                i(st),
            ];
            if st != 0 {
                v.push(attr_val(a));
            }
            if let Some(b) = back {
                v.push(attr_val(&b));
            }
            Val::L(v)
        })
        .collect();
    let nv = nets
        .iter()
        .map(|(f, n)| {
            let (st, back) = nlri_rt_status(n, *f);
            let mut v = vec![Val::n(fam_u32(*f)), i(st)];
            if st != 0 {
                v.push(s_val(&format!("{}", n)));
                v.push(Val::from_bytes(&n.encode_to_bytes()));
            }
            if let Some(b) = back {
                v.push(Val::from_bytes(&b.encode_to_bytes()));
            }
            Val::L(v)
        })
        .collect();
    Val::L(vec![i(1), Val::L(av), Val::L(nv)])
}

// kind 6: an API EVPN message; the last element tells whether the accepted route decodes
// back from its own wire encoding to the same value
fn run_api_evpn(l: &[Val]) -> Val {
    match net_from_api(api_evpn_of(&l[1]), Family::L2VPN_EVPN) {
        Ok(Nlri::Evpn(e)) => {
            let bytes = Nlri::Evpn(e.clone()).encode_to_bytes();
            let back = packet::evpn::EvpnNlri::decode(&mut Cursor::new(&bytes));
            let same = matches!(back, Ok(ref b) if b == &e);
            Val::L(vec![i(1), evpn_val(&e), Val::b(same)])
        }
        Ok(_) => Val::L(vec![i(-4)]),
        Err(_) => Val::L(vec![i(0)]),
    }
}

// kind 7: an internal EVPN route
fn run_evpn(l: &[Val]) -> Val {
    let n = Nlri::Evpn(evpn_of(&l[1]));
    let x = nlri_to_api(&n);
    let back = match net_from_api(x.clone(), Family::L2VPN_EVPN) {
        Ok(Nlri::Evpn(e)) => Val::L(vec![i(1), evpn_val(&e)]),
        Ok(_) => Val::L(vec![i(-4)]),
        Err(_) => Val::L(vec![i(0)]),
    };
    Val::L(vec![api_evpn_val(&x), back])
}

// the NLRI as the repository's own decoder reads it back from the bytes of Nlri::encode, inside an
// MP_REACH of `family` (None when the UPDATE does not decode to exactly this one NLRI)
fn redecode(n: &Nlri, family: Family) -> Option<Nlri> {
    let body = n.encode_to_bytes();
    let mut mp = vec![(family.afi() >> 8) as u8, family.afi() as u8, family.safi()];
    let flowspec = matches!(
        family,
        Family::IPV4_FLOWSPEC | Family::IPV6_FLOWSPEC | Family::IPV4_FLOWSPEC_VPN | Family::IPV6_FLOWSPEC_VPN
    );
    if flowspec {
        mp.push(0);
    } else {
        mp.extend_from_slice(&[4, 192, 0, 2, 1]);
    }
    mp.push(0);
    mp.extend_from_slice(&body);
    let mut attrs = wire_attr(0x40, 1, &[0]);
    attrs.extend_from_slice(&wire_attr(0x40, 2, &[]));
    attrs.extend_from_slice(&wire_attr(0x90, 14, &mp));
    let msg = update_with_attrs(&attrs, &[]);
    let mut codec = PeerCodec::new();
    codec.extended_length = true;
    for f in ALL_FAMILIES {
        codec.set_family(f, bgp::FamilyState { addpath_rx: false, addpath_tx: false });
    }
    match codec.parse_message(&msg) {
        Ok(bgp::ParsedMessage::Update(bgp::ParsedUpdate::Routes { mp_reach: Some(r), .. })) if r.entries.len() == 1 => {
            Some(r.entries[0].nlri.clone())
        }
        _ => None,
    }
}

// kind 8: [8, family, api nlri]: an API NLRI message of the families without a (complete) model.
// observation: [0] refused | [1, display text, wire bytes, redecoded == accepted, relisted == accepted, api form listed]
fn run_api_xnlri(l: &[Val]) -> Val {
    let f = l[1].u32();
    let family = Family::new((f >> 16) as u16, (f & 0xff) as u8);
    // as GrpcService::local_path does: net_from_api, then the family check
    match net_from_api(api_xnlri_of(&l[2]), family) {
        Err(_) => Val::L(vec![i(0)]),
        Ok(n) if !nlri_matches_family(&n, family) => Val::L(vec![i(0)]),
        Ok(n) => {
            let bytes = caught(|| Val::from_bytes(&n.encode_to_bytes()));
            let redec = caught(|| Val::b(redecode(&n, family).as_ref() == Some(&n)));
            let listed = caught(|| api_xnlri_val(&nlri_to_api(&n)));
            let relist = caught(|| match net_from_api(nlri_to_api(&n), family) {
                Ok(b) => i(if b == n { 0 } else { 1 }),
                Err(_) => i(2),
            });
            Val::L(vec![i(1), s_val(&format!("{}", n)), bytes, redec, relist, listed])
        }
    }
}

// kind 9: [9, 0, PrefixSid message] / [9, 1, TunnelEncap message] / [9, 2, LsAttribute message]: a typed message of an attribute whose value is a TLV tree.
// observation: [0] refused | [1, value bytes, the packet decoder reads the value, listed and added again: 0 same / 1 changed / 2 refused,
//               the listing: the typed message, or [99] for the raw form]
fn run_api_typed(l: &[Val]) -> Val {
    let which = l[1].int();
    let msg = if which == 0 {
        api::attribute::Attr::PrefixSid(prefix_sid_api_of(&l[2]))
    } else if which == 1 {
        api::attribute::Attr::TunnelEncap(tunnel_encap_api_of(&l[2]))
    } else {
        api::attribute::Attr::Ls(ls_attr_api_of(&l[2]))
    };
    match attr_from_api(api::Attribute { attr: Some(msg) }) {
        Err(_) => Val::L(vec![i(0)]),
        Ok(a) => {
            let bytes = a.binary().unwrap().clone();
            let dec = caught(|| {
                if which == 0 {
                    Val::b(prefix_sid::PrefixSid::decode(&bytes).is_ok())
                } else if which == 2 {
                    let mut again = Vec::new();
                    for t in ls::parse_ls_attr(&bytes) {
                        t.encode(&mut again);
                    }
                    Val::b(again == bytes)
                } else {
                    Val::b(packet::tunnel_encap::encode(&packet::tunnel_encap::decode(&bytes)) == bytes)
                }
            });
            let relist = caught(|| match attr_from_api(attr_to_api(&a)) {
                Ok(b) => i(if b == a { 0 } else { 1 }),
                Err(_) => i(2),
            });
            let listed = caught(|| match attr_to_api(&a).attr {
                Some(api::attribute::Attr::PrefixSid(p)) => prefix_sid_api_val(&p),
                Some(api::attribute::Attr::TunnelEncap(t)) => tunnel_encap_api_val(&t),
                Some(api::attribute::Attr::Ls(x)) => ls_attr_api_val(&x),
                _ => Val::L(vec![i(99)]),
            });
            Val::L(vec![i(1), bytes_digest_val(&bytes), dec, relist, listed, Val::n(a.code()), Val::n(a.flags())])
        }
    }
}

// kind 10: [10, family, NLRI octets]: NLRIs as a peer sends them in an MP_REACH of `family`, decoded by the repository's
// decoder (the values the RIB can hold), then each one listed (nlri_to_api) and given back (net_from_api + family check).
// observation: [0] the UPDATE does not decode to routes | [1, [[display text, Nlri::encode octets, API form listed,
//               given back: 0 same / 1 changed / 2 refused] ...]]
fn run_held_nlri(l: &[Val]) -> Val {
    let f = l[1].u32();
    let family = Family::new((f >> 16) as u16, (f & 0xff) as u8);
    let body = l[2].bytes();
    let mut mp = vec![(family.afi() >> 8) as u8, family.afi() as u8, family.safi()];
    let flowspec = matches!(
        family,
        Family::IPV4_FLOWSPEC | Family::IPV6_FLOWSPEC | Family::IPV4_FLOWSPEC_VPN | Family::IPV6_FLOWSPEC_VPN
    );
    if flowspec {
        mp.push(0);
    } else if family.afi() == 2 {
        mp.push(16);
        mp.extend_from_slice(&[0x20, 1, 0xd, 0xb8, 0, 0, 0, 0, 0, 0, 0, 0, 0, 0, 0, 1]);
    } else {
        mp.extend_from_slice(&[4, 192, 0, 2, 1]);
    }
    mp.push(0);
    mp.extend_from_slice(&body);
    let mut attrs = wire_attr(0x40, 1, &[0]);
    attrs.extend_from_slice(&wire_attr(0x40, 2, &[]));
    attrs.extend_from_slice(&wire_attr(0x90, 14, &mp));
    let msg = update_with_attrs(&attrs, &[]);
    let mut codec = PeerCodec::new();
    codec.extended_length = true;
    for f in ALL_FAMILIES {
        codec.set_family(f, bgp::FamilyState { addpath_rx: false, addpath_tx: false });
    }
    let entries = match codec.parse_message(&msg) {
        Ok(bgp::ParsedMessage::Update(bgp::ParsedUpdate::Routes { mp_reach: Some(r), .. })) if !r.entries.is_empty() => {
            r.entries.iter().map(|e| e.nlri.clone()).collect::<Vec<_>>()
        }
        _ => return Val::L(vec![i(0)]),
    };
    let out = entries
        .iter()
        .map(|n| {
            let text = s_val(&format!("{}", n));
            let bytes = caught(|| Val::from_bytes(&n.encode_to_bytes()));
            let listed = caught(|| {
                let x = nlri_to_api(n);
                let v = api_xnlri_val(&x);
                if v != Val::L(vec![i(99)]) {
                    return v;
                }
                let v = api_nlri_val(&x);
                if v != Val::L(vec![i(99)]) {
                    return v;
                }
                api_evpn_val(&x)
            });
            let back = caught(|| match net_from_api(nlri_to_api(n), family) {
                Ok(b) if !nlri_matches_family(&b, family) => i(2),
                Ok(b) => i(if b == *n { 0 } else { 1 }),
                Err(_) => i(2),
            });
            Val::L(vec![text, bytes, listed, back])
        })
        .collect();
    Val::L(vec![i(1), Val::L(out)])
}

fn run_case(case: &Val) -> Val {
    let l = case.list();
    match l[0].int() {
        10 => run_held_nlri(l),
        9 => run_api_typed(l),
        8 => run_api_xnlri(l),
        6 => run_api_evpn(l),
        7 => run_evpn(l),
        4 => run_wide(l),
        0 => run_wire(l),
        1 => run_api(l),
        2 => run_api_nlri(l),
        3 => run_nlri(l),
        k => panic!("verif: unknown case kind {}", k),
    }
}

#[test]
fn verif_convert_cases() {
    val::run_cases(run_case);
}
