// Correspondence harness for daemon/src/convert.rs (property C17).
// Included as the body of `convert::verif_hx` under cfg(all(test, osrg_rustybgp_verif)).
//
// Case kinds (first element):
//   0  [0, flags, code, value]         one path attribute as it arrives on the wire: decoded by
//                                      PeerCodec::parse_message, then attr_to_api / attr_from_api
//   1  [1, api_attr]                   an API attribute message: attr_from_api, then the consumers
//   2  [2, family, api_nlri]           an API NLRI message: net_from_api, then nlri_to_api/encode
//   3  [3, family, nlri wire bytes]    NLRIs decoded from an MP_REACH / classic UPDATE, round trip
//   4  [4, addpath, update body]       wide differential part: a whole UPDATE (any family, any
//                                      attribute kind), every decoded attribute and NLRI round-tripped
use super::*;

#[allow(dead_code)]
mod val {
    include!(concat!(env!("VERIF_HX_DIR"), "/common/val.rs"));
}
use val::Val;

use rustybgp_packet::bgp::{self, PeerCodec};
use std::panic::{AssertUnwindSafe, catch_unwind};
use std::sync::Arc;

fn i(n: i128) -> Val {
    Val::I(n)
}
fn s_val(s: &str) -> Val {
    Val::from_bytes(s.as_bytes())
}
fn s_of(v: &Val) -> String {
    // API strings are arbitrary byte strings in the cases; prost strings are UTF-8,
    // the generators only produce ASCII.
    String::from_utf8_lossy(&v.bytes()).into_owned()
}

fn attr_val(a: &Attribute) -> Val {
    if let Some(v) = a.value() {
        Val::L(vec![Val::n(a.code()), Val::n(a.flags()), i(0), Val::L(vec![Val::n(v)])])
    } else {
        let b = a.binary().unwrap();
        Val::L(vec![
            Val::n(a.code()),
            Val::n(a.flags()),
            i(if a.is_opaque() { 2 } else { 1 }),
            Val::from_bytes(b),
        ])
    }
}

fn extcom_val(x: &api::ExtendedCommunity) -> Val {
    use api::extended_community::Extcom as E;
    match &x.extcom {
        None => Val::L(vec![i(0)]),
        Some(E::TwoOctetAsSpecific(t)) => Val::L(vec![
            i(1),
            Val::b(t.is_transitive),
            Val::n(t.sub_type),
            Val::n(t.asn),
            Val::n(t.local_admin),
        ]),
        Some(E::Ipv4AddressSpecific(t)) => Val::L(vec![
            i(2),
            Val::b(t.is_transitive),
            Val::n(t.sub_type),
            s_val(&t.address),
            Val::n(t.local_admin),
        ]),
        Some(E::FourOctetAsSpecific(t)) => Val::L(vec![
            i(3),
            Val::b(t.is_transitive),
            Val::n(t.sub_type),
            Val::n(t.asn),
            Val::n(t.local_admin),
        ]),
        Some(E::Mup(m)) => Val::L(vec![
            i(4),
            Val::n(m.sub_type),
            Val::n(m.segment_id2),
            Val::n(m.segment_id4),
        ]),
        Some(E::Unknown(u)) => Val::L(vec![i(5), Val::n(u.r#type), Val::from_bytes(&u.value)]),
        Some(E::TrafficRate(t)) => Val::L(vec![i(6), Val::n(t.asn), Val::n(t.rate.to_bits())]),
        Some(E::TrafficAction(t)) => Val::L(vec![i(7), Val::b(t.terminal), Val::b(t.sample)]),
        Some(E::RedirectTwoOctetAsSpecific(t)) => {
            Val::L(vec![i(8), Val::n(t.asn), Val::n(t.local_admin)])
        }
        Some(E::TrafficRemark(t)) => Val::L(vec![i(9), Val::n(t.dscp)]),
        Some(E::RedirectIpv4AddressSpecific(t)) => {
            Val::L(vec![i(10), s_val(&t.address), Val::n(t.local_admin)])
        }
        Some(E::RedirectFourOctetAsSpecific(t)) => {
            Val::L(vec![i(11), Val::n(t.asn), Val::n(t.local_admin)])
        }
        Some(_) => Val::L(vec![i(99)]),
    }
}

fn extcom_of(v: &Val) -> api::ExtendedCommunity {
    use api::extended_community::Extcom as E;
    let l = v.list();
    let e = match l[0].int() {
        0 => None,
        1 => Some(E::TwoOctetAsSpecific(api::TwoOctetAsSpecificExtended {
            is_transitive: l[1].bool(),
            sub_type: l[2].u32(),
            asn: l[3].u32(),
            local_admin: l[4].u32(),
        })),
        2 => Some(E::Ipv4AddressSpecific(api::IPv4AddressSpecificExtended {
            is_transitive: l[1].bool(),
            sub_type: l[2].u32(),
            address: s_of(&l[3]),
            local_admin: l[4].u32(),
        })),
        3 => Some(E::FourOctetAsSpecific(api::FourOctetAsSpecificExtended {
            is_transitive: l[1].bool(),
            sub_type: l[2].u32(),
            asn: l[3].u32(),
            local_admin: l[4].u32(),
        })),
        4 => Some(E::Mup(api::MupExtended {
            sub_type: l[1].u32(),
            segment_id2: l[2].u32(),
            segment_id4: l[3].u32(),
        })),
        5 => Some(E::Unknown(api::UnknownExtended {
            r#type: l[1].u32(),
            value: l[2].bytes(),
        })),
        6 => Some(E::TrafficRate(api::TrafficRateExtended {
            asn: l[1].u32(),
            rate: f32::from_bits(l[2].u32()),
        })),
        7 => Some(E::TrafficAction(api::TrafficActionExtended {
            terminal: l[1].bool(),
            sample: l[2].bool(),
        })),
        8 => Some(E::RedirectTwoOctetAsSpecific(api::RedirectTwoOctetAsSpecificExtended {
            asn: l[1].u32(),
            local_admin: l[2].u32(),
        })),
        9 => Some(E::TrafficRemark(api::TrafficRemarkExtended { dscp: l[1].u32() })),
        10 => Some(E::RedirectIpv4AddressSpecific(api::RedirectIPv4AddressSpecificExtended {
            address: s_of(&l[1]),
            local_admin: l[2].u32(),
        })),
        11 => Some(E::RedirectFourOctetAsSpecific(api::RedirectFourOctetAsSpecificExtended {
            asn: l[1].u32(),
            local_admin: l[2].u32(),
        })),
        _ => Some(E::Color(api::ColorExtended { color: 7 })),
    };
    api::ExtendedCommunity { extcom: e }
}

fn api_val(a: &api::Attribute) -> Val {
    use api::attribute::Attr as A;
    match &a.attr {
        None => Val::L(vec![i(0)]),
        Some(A::Unknown(u)) => Val::L(vec![
            i(1),
            Val::n(u.flags),
            Val::n(u.r#type),
            Val::from_bytes(&u.value),
        ]),
        Some(A::Origin(o)) => Val::L(vec![i(2), Val::n(o.origin)]),
        Some(A::AsPath(p)) => Val::L(vec![
            i(3),
            Val::L(
                p.segments
                    .iter()
                    .map(|s| {
                        Val::L(vec![
                            Val::n(s.r#type),
                            Val::L(s.numbers.iter().map(|n| Val::n(*n)).collect()),
                        ])
                    })
                    .collect(),
            ),
        ]),
        Some(A::NextHop(n)) => Val::L(vec![i(4), s_val(&n.next_hop)]),
        Some(A::MultiExitDisc(m)) => Val::L(vec![i(5), Val::n(m.med)]),
        Some(A::LocalPref(m)) => Val::L(vec![i(6), Val::n(m.local_pref)]),
        Some(A::AtomicAggregate(_)) => Val::L(vec![i(7)]),
        Some(A::Aggregator(g)) => Val::L(vec![i(8), Val::n(g.asn), s_val(&g.address)]),
        Some(A::Communities(c)) => Val::L(vec![
            i(9),
            Val::L(c.communities.iter().map(|n| Val::n(*n)).collect()),
        ]),
        Some(A::OriginatorId(o)) => Val::L(vec![i(10), s_val(&o.id)]),
        Some(A::ClusterList(c)) => {
            Val::L(vec![i(11), Val::L(c.ids.iter().map(|s| s_val(s)).collect())])
        }
        Some(A::ExtendedCommunities(e)) => {
            Val::L(vec![i(14), Val::L(e.communities.iter().map(extcom_val).collect())])
        }
        Some(A::LargeCommunities(c)) => Val::L(vec![
            i(21),
            Val::L(
                c.communities
                    .iter()
                    .map(|x| {
                        Val::L(vec![
                            Val::n(x.global_admin),
                            Val::n(x.local_data1),
                            Val::n(x.local_data2),
                        ])
                    })
                    .collect(),
            ),
        ]),
        Some(_) => Val::L(vec![i(99)]),
    }
}

fn api_of(v: &Val) -> api::Attribute {
    use api::attribute::Attr as A;
    let l = v.list();
    let attr = match l[0].int() {
        0 => None,
        1 => Some(A::Unknown(api::UnknownAttribute {
            flags: l[1].u32(),
            r#type: l[2].u32(),
            value: l[3].bytes(),
        })),
        2 => Some(A::Origin(api::OriginAttribute { origin: l[1].u32() })),
        3 => Some(A::AsPath(api::AsPathAttribute {
            segments: l[1]
                .list()
                .iter()
                .map(|s| api::AsSegment {
                    r#type: s.at(0).int() as i32,
                    numbers: s.at(1).list().iter().map(|n| n.u32()).collect(),
                })
                .collect(),
        })),
        4 => Some(A::NextHop(api::NextHopAttribute { next_hop: s_of(&l[1]) })),
        5 => Some(A::MultiExitDisc(api::MultiExitDiscAttribute { med: l[1].u32() })),
        6 => Some(A::LocalPref(api::LocalPrefAttribute { local_pref: l[1].u32() })),
        7 => Some(A::AtomicAggregate(api::AtomicAggregateAttribute {})),
        8 => Some(A::Aggregator(api::AggregatorAttribute {
            asn: l[1].u32(),
            address: s_of(&l[2]),
        })),
        9 => Some(A::Communities(api::CommunitiesAttribute {
            communities: l[1].list().iter().map(|n| n.u32()).collect(),
        })),
        10 => Some(A::OriginatorId(api::OriginatorIdAttribute { id: s_of(&l[1]) })),
        11 => Some(A::ClusterList(api::ClusterListAttribute {
            ids: l[1].list().iter().map(s_of).collect(),
        })),
        14 => Some(A::ExtendedCommunities(api::ExtendedCommunitiesAttribute {
            communities: l[1].list().iter().map(extcom_of).collect(),
        })),
        21 => Some(A::LargeCommunities(api::LargeCommunitiesAttribute {
            communities: l[1]
                .list()
                .iter()
                .map(|t| api::LargeCommunity {
                    global_admin: t.at(0).u32(),
                    local_data1: t.at(1).u32(),
                    local_data2: t.at(2).u32(),
                })
                .collect(),
        })),
        _ => Some(A::Aigp(api::AigpAttribute { tlvs: vec![] })),
    };
    api::Attribute { attr }
}

fn update_with_attrs(attr_bytes: &[u8], nlri: &[u8]) -> Vec<u8> {
    let total = 16 + 2 + 1 + 2 + 2 + attr_bytes.len() + nlri.len();
    let mut msg = Vec::with_capacity(total);
    msg.extend_from_slice(&[0xff; 16]);
    msg.extend_from_slice(&(total as u16).to_be_bytes());
    msg.push(2);
    msg.extend_from_slice(&[0, 0]);
    msg.extend_from_slice(&(attr_bytes.len() as u16).to_be_bytes());
    msg.extend_from_slice(attr_bytes);
    msg.extend_from_slice(nlri);
    msg
}

fn wire_attr(flags: u8, code: u8, data: &[u8]) -> Vec<u8> {
    let mut b = vec![flags, code];
    if flags & 0x10 != 0 {
        b.extend_from_slice(&(data.len() as u16).to_be_bytes());
    } else {
        b.push(data.len() as u8);
    }
    b.extend_from_slice(data);
    b
}

fn from_api_val(r: Result<Attribute, Error>) -> Val {
    match r {
        Ok(a) => Val::L(vec![i(1), attr_val(&a)]),
        Err(_) => Val::L(vec![i(0)]),
    }
}

fn caught<F: FnOnce() -> Val>(f: F) -> Val {
    match catch_unwind(AssertUnwindSafe(f)) {
        Ok(v) => v,
        Err(_) => Val::L(vec![i(-1)]),
    }
}

// kind 0
fn run_wire(l: &[Val]) -> Val {
    let flags = l[1].u8();
    let code = l[2].u8();
    let data = l[3].bytes();
    let msg = update_with_attrs(&wire_attr(flags, code, &data), &[]);
    let mut codec = PeerCodec::new();
    codec.extended_length = true;
    let attrs = match codec.parse_message(&msg) {
        Ok(bgp::ParsedMessage::Update(bgp::ParsedUpdate::Routes {
            attrs, error_attrs, ..
        })) => {
            if error_attrs.is_empty() { attrs } else { Vec::new() }
        }
        _ => Vec::new(),
    };
    let Some(a) = attrs.first() else {
        return Val::L(vec![i(0)]);
    };
    let apiv = caught(|| api_val(&attr_to_api(a)));
    let rt = caught(|| from_api_val(attr_from_api(attr_to_api(a))));
    Val::L(vec![i(1), attr_val(a), apiv, rt])
}

// GrpcService::local_path's assembly of the attribute list (event/grpc.rs): MP_REACH and
// NEXT_HOP go to the nexthop field, ORIGINATOR_ID / CLUSTER_LIST / MP_UNREACH are dropped,
// ORIGIN igp and an empty AS_PATH are supplied when absent.
fn local_path_attrs(a: &Attribute) -> Vec<Attribute> {
    let mut attr = Vec::new();
    match a.code() {
        Attribute::MP_REACH
        | Attribute::NEXTHOP
        | Attribute::ORIGINATOR_ID
        | Attribute::CLUSTER_LIST
        | Attribute::MP_UNREACH => {}
        _ => attr.push(a.clone()),
    }
    if !attr.iter().any(|a| a.code() == Attribute::ORIGIN) {
        attr.push(Attribute::new_with_value(Attribute::ORIGIN, 0).unwrap());
    }
    if !attr.iter().any(|a| a.code() == Attribute::AS_PATH) {
        attr.push(Attribute::empty_as_path());
    }
    attr
}

fn insert_next_to_competitor(a: &Attribute) -> Val {
    use rustybgp_table::{InsertResult, PeerRole, Source, Table};
    use std::net::IpAddr;
    let mut t = Table::new(0);
    let mk = |k: u8| {
        Arc::new(Source::new(
            IpAddr::V4(Ipv4Addr::new(192, 0, 2, k)),
            IpAddr::V4(Ipv4Addr::new(192, 0, 2, 254)),
            65000 + k as u32,
            65000,
            Ipv4Addr::from(k as u32),
            PeerRole::Ebgp,
        ))
    };
    let net = Nlri::V4(Ipv4Net { addr: Ipv4Addr::new(10, 0, 0, 0), mask: 8 });
    let nh = Some(bgp::Nexthop::V4(Ipv4Addr::new(192, 0, 2, 1)));
    let comp = vec![
        Attribute::new_with_value(Attribute::ORIGIN, 0).unwrap(),
        Attribute::empty_as_path(),
    ];
    let _ = t.insert(mk(1), Family::IPV4, net.clone(), 0, nh, Arc::new(comp), None, false, false, None, 0);
    let newsrc = mk(2);
    let r = t.insert(
        newsrc.clone(),
        Family::IPV4,
        net,
        0,
        nh,
        Arc::new(local_path_attrs(a)),
        None,
        false,
        false,
        None,
        0,
    );
    match r {
        InsertResult::Changed(ch) => {
            let first_is_new = ch
                .current_paths
                .first()
                .map(|p| Arc::ptr_eq(&p.source, &newsrc))
                .unwrap_or(false);
            Val::b(first_is_new)
        }
        _ => i(-3),
    }
}

fn downstream(a: &Attribute) -> Val {
    let aspl = if a.code() == Attribute::AS_PATH {
        caught(|| Val::us(a.as_path_length()))
    } else {
        Val::L(vec![i(-2)])
    };
    let enc = caught(|| Val::us(a.encode_to_bytes().len()));
    let list = caught(|| {
        let _ = attr_to_api(a);
        i(0)
    });
    let ins = caught(|| insert_next_to_competitor(a));
    Val::L(vec![aspl, enc, list, ins])
}

// kind 1
fn run_api(l: &[Val]) -> Val {
    let x = api_of(&l[1]);
    match attr_from_api(x) {
        Err(_) => Val::L(vec![i(0)]),
        Ok(a) => Val::L(vec![i(1), attr_val(&a), downstream(&a)]),
    }
}

// ---------------------------------------------------------------- NLRI
fn v6_of(v: &Val) -> Ipv6Addr {
    let b = v.bytes();
    let mut a = [0u8; 16];
    a.copy_from_slice(&b[..16]);
    Ipv6Addr::from(a)
}

fn labels_val(l: &packet::mpls::MplsLabelStack) -> Val {
    Val::L(l.labels().iter().map(|x| Val::n(x.value())).collect())
}

fn nlri_val(n: &Nlri) -> Val {
    match n {
        Nlri::V4(x) => Val::L(vec![i(4), Val::n(u32::from(x.addr)), Val::n(x.mask)]),
        Nlri::V6(x) => Val::L(vec![i(6), Val::from_bytes(&x.addr.octets()), Val::n(x.mask)]),
        Nlri::LabeledV4(x) => Val::L(vec![
            i(14),
            labels_val(&x.labels),
            Val::n(u32::from(x.prefix.addr)),
            Val::n(x.prefix.mask),
        ]),
        Nlri::LabeledV6(x) => Val::L(vec![
            i(16),
            labels_val(&x.labels),
            Val::from_bytes(&x.prefix.addr.octets()),
            Val::n(x.prefix.mask),
        ]),
        _ => Val::L(vec![i(99)]),
    }
}

fn nlri_of(v: &Val) -> Nlri {
    use packet::mpls::{MplsLabel, MplsLabelStack};
    let l = v.list();
    let stack = |v: &Val| MplsLabelStack::new(v.list().iter().map(|x| MplsLabel::new(x.u32())).collect());
    match l[0].int() {
        4 => Nlri::V4(Ipv4Net { addr: Ipv4Addr::from(l[1].u32()), mask: l[2].u8() }),
        6 => Nlri::V6(Ipv6Net { addr: v6_of(&l[1]), mask: l[2].u8() }),
        14 => Nlri::LabeledV4(packet::labeled::LabeledV4Nlri {
            labels: stack(&l[1]),
            prefix: Ipv4Net { addr: Ipv4Addr::from(l[2].u32()), mask: l[3].u8() },
        }),
        16 => Nlri::LabeledV6(packet::labeled::LabeledV6Nlri {
            labels: stack(&l[1]),
            prefix: Ipv6Net { addr: v6_of(&l[2]), mask: l[3].u8() },
        }),
        k => panic!("verif: unknown nlri tag {}", k),
    }
}

fn api_nlri_val(n: &api::Nlri) -> Val {
    match &n.nlri {
        None => Val::L(vec![i(0)]),
        Some(api::nlri::Nlri::Prefix(p)) => Val::L(vec![i(1), s_val(&p.prefix), Val::n(p.prefix_len)]),
        Some(api::nlri::Nlri::LabeledPrefix(p)) => Val::L(vec![
            i(2),
            Val::L(p.labels.iter().map(|x| Val::n(*x)).collect()),
            s_val(&p.prefix),
            Val::n(p.prefix_len),
        ]),
        Some(_) => Val::L(vec![i(99)]),
    }
}

fn api_nlri_of(v: &Val) -> api::Nlri {
    let l = v.list();
    let nlri = match l[0].int() {
        0 => None,
        1 => Some(api::nlri::Nlri::Prefix(api::IpAddressPrefix {
            prefix: s_of(&l[1]),
            prefix_len: l[2].u32(),
        })),
        2 => Some(api::nlri::Nlri::LabeledPrefix(api::LabeledIpAddressPrefix {
            labels: l[1].list().iter().map(|x| x.u32()).collect(),
            prefix: s_of(&l[2]),
            prefix_len: l[3].u32(),
        })),
        k => panic!("verif: unknown api nlri tag {}", k),
    };
    api::Nlri { nlri }
}

fn net_from_api_val(r: Result<Nlri, Error>) -> Val {
    match r {
        Ok(n) => Val::L(vec![i(1), nlri_val(&n)]),
        Err(_) => Val::L(vec![i(0)]),
    }
}

// kind 2: an API NLRI message
fn run_api_nlri(l: &[Val]) -> Val {
    match net_from_api(api_nlri_of(&l[1]), Family::IPV4) {
        Err(_) => Val::L(vec![i(0)]),
        Ok(n) => {
            let enc = caught(|| Val::from_bytes(&n.encode_to_bytes()));
            Val::L(vec![i(1), nlri_val(&n), enc])
        }
    }
}

// kind 3: an internal NLRI value
fn run_nlri(l: &[Val]) -> Val {
    let n = nlri_of(&l[1]);
    let x = nlri_to_api(&n);
    let back = net_from_api(x.clone(), Family::IPV4);
    Val::L(vec![api_nlri_val(&x), net_from_api_val(back)])
}

// ---------------------------------------------------------------- kind 4: the wide differential part
const ALL_FAMILIES: [Family; 19] = [
    Family::IPV4,
    Family::IPV6,
    Family::IPV4_MC,
    Family::IPV6_MC,
    Family::IPV4_MPLS,
    Family::IPV6_MPLS,
    Family::LS,
    Family::IPV4_MUP,
    Family::IPV6_MUP,
    Family::IPV4_VPN,
    Family::IPV6_VPN,
    Family::IPV4_FLOWSPEC,
    Family::IPV6_FLOWSPEC,
    Family::IPV4_FLOWSPEC_VPN,
    Family::IPV6_FLOWSPEC_VPN,
    Family::IPV4_SRPOLICY,
    Family::IPV6_SRPOLICY,
    Family::L2VPN_EVPN,
    Family::RTC,
];

fn fam_u32(f: Family) -> u32 {
    ((f.afi() as u32) << 16) | f.safi() as u32
}

// round-trip status of one held attribute: 0 equal, 1 differs, 2 rejected, 3 only the flags
// differ, -1 attr_to_api panicked, -2 attr_from_api panicked
fn attr_rt_status(a: &Attribute) -> (i128, Option<Attribute>) {
    let x = match catch_unwind(AssertUnwindSafe(|| attr_to_api(a))) {
        Ok(x) => x,
        Err(_) => return (-1, None),
    };
    match catch_unwind(AssertUnwindSafe(|| attr_from_api(x))) {
        Err(_) => (-2, None),
        Ok(Err(_)) => (2, None),
        Ok(Ok(b)) => {
            if &b == a {
                (0, None)
            } else if b.code() == a.code()
                && b.value() == a.value()
                && b.binary() == a.binary()
                && b.is_opaque() == a.is_opaque()
            {
                (3, None)
            } else {
                (1, Some(b))
            }
        }
    }
}

fn nlri_rt_status(n: &Nlri, family: Family) -> (i128, Option<Nlri>) {
    let x = match catch_unwind(AssertUnwindSafe(|| nlri_to_api(n))) {
        Ok(x) => x,
        Err(_) => return (-1, None),
    };
    match catch_unwind(AssertUnwindSafe(|| net_from_api(x, family))) {
        Err(_) => (-2, None),
        Ok(Err(_)) => (2, None),
        Ok(Ok(b)) => {
            if &b == n { (0, None) } else { (1, Some(b)) }
        }
    }
}

// [4, opts, message bytes]: opts bit0 = two-octet-AS session, bit1 = ADD-PATH receive
fn run_wide(l: &[Val]) -> Val {
    let opts = l[1].u8();
    let msg = l[2].bytes();
    let mut codec = PeerCodec::new();
    codec.extended_length = true;
    codec.two_byte_as = opts & 1 != 0;
    for f in ALL_FAMILIES {
        codec.set_family(f, bgp::FamilyState { addpath_rx: opts & 2 != 0, addpath_tx: false });
    }
    let (attrs, nets) = match codec.parse_message(&msg) {
        Ok(bgp::ParsedMessage::Update(bgp::ParsedUpdate::Routes {
            reach,
            mp_reach,
            unreach,
            mp_unreach,
            attrs,
            ..
        })) => {
            let mut nets: Vec<(Family, Nlri)> = Vec::new();
            for r in [reach, mp_reach].into_iter().flatten() {
                for e in r.entries {
                    nets.push((r.family, e.nlri));
                }
            }
            for r in [unreach, mp_unreach].into_iter().flatten() {
                for e in r.entries {
                    nets.push((r.family, e.nlri));
                }
            }
            (attrs, nets)
        }
        _ => return Val::L(vec![i(0)]),
    };
    let av = attrs
        .iter()
        .map(|a| {
            let (st, back) = attr_rt_status(a);
            let mut v = vec![
                Val::n(a.code()),
                Val::n(a.flags()),
                i(if a.value().is_some() { 0 } else if a.is_opaque() { 2 } else { 1 }),
                i(st),
            ];
            if st != 0 {
                v.push(attr_val(a));
            }
            if let Some(b) = back {
                v.push(attr_val(&b));
            }
            Val::L(v)
        })
        .collect();
    let nv = nets
        .iter()
        .map(|(f, n)| {
            let (st, back) = nlri_rt_status(n, *f);
            let mut v = vec![Val::n(fam_u32(*f)), i(st)];
            if st != 0 {
                v.push(s_val(&format!("{}", n)));
                v.push(Val::from_bytes(&n.encode_to_bytes()));
            }
            if let Some(b) = back {
                v.push(Val::from_bytes(&b.encode_to_bytes()));
            }
            Val::L(v)
        })
        .collect();
    Val::L(vec![i(1), Val::L(av), Val::L(nv)])
}

fn run_case(case: &Val) -> Val {
    let l = case.list();
    match l[0].int() {
        4 => run_wide(l),
        0 => run_wire(l),
        1 => run_api(l),
        2 => run_api_nlri(l),
        3 => run_nlri(l),
        k => panic!("verif: unknown case kind {}", k),
    }
}

#[test]
fn verif_convert_cases() {
    val::run_cases(run_case);
}
