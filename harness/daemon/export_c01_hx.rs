// Property C01: correspondence harness for the export path of one neighbour.
//
// Drives the REAL code of the repository under verification:
//   rustybgp_table::Table            insert / remove / drop / restale_llgr / collect_loc_rib_paths*
//   event::export::process_nlri_change, ExportMap, GroupedSink
//   peer_tx::PendingTx               reach / unreach (through NlriSink) / drain_messages
// under a schedule taken from the case (table operations, Deliver, Flush, Register,
// Refresh).  The glue that on_established / handle_prefix_update / do_route_refresh /
// distribute_update put around these calls (fan-out into a FIFO channel, initial dump
// under the lock, snapshot + re-walk) is transcribed here from daemon/src/event/mod.rs
// and daemon/src/table_manager.rs; `glue` below names the two variants of the snapshot
// call.  Drained messages are decoded structurally into a mirror Adj-RIB-In.
//
// Included as `mod c01` from export_hx.rs (body of `mod verif_hx` in event/export.rs).
use super::super::*;
#[allow(dead_code)]
mod val {
    include!(concat!(env!("VERIF_HX_DIR"), "/common/val.rs"));
}
use std::collections::{BTreeMap, VecDeque};
use val::Val;

const FAM: Family = Family::IPV4;

fn net_of(k: u32) -> packet::Nlri {
    format!("10.0.{}.0/24", k).parse().unwrap()
}

fn net_idx(n: &packet::Nlri) -> u32 {
    match n {
        packet::Nlri::V4(p) => p.addr.octets()[2] as u32,
        _ => panic!("verif: unexpected NLRI kind"),
    }
}

fn role_of(r: u32) -> PeerRole {
    match r {
        0 => PeerRole::Ebgp,
        1 => PeerRole::RsClient,
        2 => PeerRole::Ibgp,
        3 => PeerRole::IbgpRrClient,
        _ => PeerRole::ConfedEbgp,
    }
}

fn addr_of(a: u32) -> IpAddr {
    IpAddr::V4(Ipv4Addr::new(10, 1, 0, a as u8))
}

// attribute block of (source, token): distinct LOCAL_PREF per (token, source) so the
// ranking has no ties; ORIGIN 2 for token 3 (the export policy of some cases rejects
// it); COMMUNITY 1:<token> 2:<source> that survive every export rewrite and lets the mirror
// be read back.
fn attrs_of(src: u32, tok: u32) -> Arc<Vec<packet::Attribute>> {
    Arc::new(vec![
        packet::Attribute::new_with_value(packet::Attribute::ORIGIN, if tok == 3 { 2 } else { 0 })
            .unwrap(),
        packet::Attribute::new_with_value(packet::Attribute::LOCAL_PREF, 200 - 10 * tok - src)
            .unwrap(),
        packet::Attribute::new_with_bin(
            packet::Attribute::COMMUNITY,
            [(0x0001_0000u32 | tok).to_be_bytes(), (0x0002_0000u32 | src).to_be_bytes()].concat(),
        )
        .unwrap(),
    ])
}

fn nh_of(tok: u32) -> Option<bgp::Nexthop> {
    Some(bgp::Nexthop::V4(Ipv4Addr::new(10, 2, 0, 1 + tok as u8)))
}

// (source, token, LLGR_STALE marker) read back from exported attributes
fn decode(attr: &Arc<Vec<packet::Attribute>>) -> (u32, u32, u32) {
    let mut tok = 999u32;
    let mut src = 999u32;
    let mut llgr = 0u32;
    if let Some(bin) = attr
        .iter()
        .find(|a| a.code() == packet::Attribute::COMMUNITY)
        .and_then(|a| a.binary())
    {
        for c in bin.chunks(4) {
            let v = u32::from_be_bytes([c[0], c[1], c[2], c[3]]);
            if v == 0xffff_0006 {
                llgr = 1;
            } else if v >> 16 == 1 {
                tok = v & 0xffff;
            } else if v >> 16 == 2 {
                src = v & 0xffff;
            } else if v == 0x0003_0001 {
                tok += 100; // tagged by export policy 1 (the token community precedes it)
            }
        }
    }
    (src, tok, llgr)
}

fn tag_policy() -> Arc<table::PolicyAssignment> {
    let st = Arc::new(table::Statement {
        name: Arc::from("tag"),
        conditions: vec![],
        disposition: Some(table::Disposition::Accept),
        actions: table::Actions {
            community: Some(table::CommunityAction {
                action_type: table::CommunityActionType::Add,
                communities: vec![0x0003_0001],
            }),
            ..Default::default()
        },
    });
    let p = Arc::new(table::Policy {
        name: Arc::from("tagp"),
        statements: vec![st],
    });
    Arc::new(table::PolicyAssignment {
        name: Arc::from("taga"),
        disposition: table::Disposition::Accept,
        policies: vec![p],
        needs_rpki: false,
    })
}

type Route = (Arc<Vec<packet::Attribute>>, Option<bgp::Nexthop>);
type Mirror = BTreeMap<(u32, u32), Route>;

// the third component: for each End-of-RIB, how many routes were announced before it in this batch
fn apply_msgs(msgs: &[bgp::Message], mirror: &mut Mirror) -> (Vec<Vec<u32>>, Vec<Vec<u32>>, Vec<u32>) {
    let mut un = Vec::new();
    let mut re = Vec::new();
    let mut eor: Vec<u32> = Vec::new();
    for m in msgs {
        match m {
            bgp::Message::Update(bgp::Update::Unreach { entries, .. }) => {
                for e in entries {
                    let k = (net_idx(&e.nlri), e.path_id);
                    mirror.remove(&k);
                    un.push(vec![k.0, k.1]);
                }
            }
            bgp::Message::Update(bgp::Update::Reach {
                entries,
                nexthop,
                attr,
                ..
            }) => {
                for e in entries {
                    let k = (net_idx(&e.nlri), e.path_id);
                    mirror.insert(k, (Arc::clone(attr), *nexthop));
                    let (s, t, l) = decode(attr);
                    re.push(vec![k.0, k.1, s, t, l]);
                }
            }
            bgp::Message::Update(bgp::Update::EndOfRib(_)) => eor.push(re.len() as u32),
            _ => panic!("verif: unexpected message drained"),
        }
    }
    un.sort();
    re.sort();
    (un, re, eor)
}

fn rows(r: &[Vec<u32>]) -> Val {
    Val::L(r.iter().map(|x| Val::L(x.iter().map(|y| Val::n(*y)).collect())).collect())
}

fn mirror_rows(m: &Mirror) -> Val {
    let mut r: Vec<Vec<u32>> = m
        .iter()
        .map(|(k, (a, _))| {
            let (s, t, l) = decode(a);
            vec![k.0, k.1, s, t, l]
        })
        .collect();
    r.sort();
    rows(&r)
}

// what travels on the session's event channel (ToPeerEvent::{NlriChange, RefreshWalk})
enum Ev {
    Change(table::NlriChange),
    Walk(Vec<table::NlriChange>),
}

struct World {
    table: table::Table,
    srcs: Vec<Arc<table::Source>>,
    max: usize,
    aptx: bool,
    remote_addr: IpAddr,
    ctx: PeerExportContext,
    cluster_id: Option<Ipv4Addr>,
    policy: Option<Arc<table::PolicyAssignment>>,
    policy0: Option<Arc<table::PolicyAssignment>>,
    glue_limited: bool,
    registered: bool,
    chan: VecDeque<Ev>,
    export_map: ExportMap,
    pending: crate::peer_tx::PendingTx,
    mirror: Mirror,
}

impl World {
    fn snapshot(&self) -> Vec<table::NlriChange> {
        // on_established / do_route_refresh: `collect_loc_rib_paths_limited(f, effective_max)`
        let mut v = if self.glue_limited {
            self.table.collect_loc_rib_paths_limited(&FAM, self.max)
        } else {
            self.table.collect_loc_rib_paths(&FAM)
        };
        v.sort_by_key(|c| net_idx(&c.net));
        v
    }

    fn process<S: NlriSink>(&self, c: &table::NlriChange, em: &mut ExportMap, sink: &mut S) {
        process_nlri_change(
            c,
            self.max,
            self.remote_addr,
            em,
            sink,
            &self.ctx,
            self.policy.as_deref(),
            self.cluster_id,
            None,
            None,
            None,
        );
    }

    fn new_export_map(&self) -> ExportMap {
        ExportMap::new(if self.max > 1 { vec![FAM] } else { vec![] })
    }

    // on_established, restricted to one family: returns (export map, pending)
    fn initial_dump(&self) -> (ExportMap, crate::peer_tx::PendingTx) {
        let mut em = self.new_export_map();
        let mut pending = crate::peer_tx::PendingTx::new(self.aptx);
        let addpath_tx = pending.addpath_tx();
        let mut sink = GroupedSink::new(addpath_tx);
        for change in self.snapshot() {
            self.process(&change, &mut em, &mut sink);
        }
        pending.buffer_messages(sink.into_messages(FAM));
        pending.buffer_messages(vec![bgp::Message::eor(FAM)]);
        (em, pending)
    }

    fn fresh(&self) -> Mirror {
        let (_, mut p) = self.initial_dump();
        let mut m = Mirror::new();
        apply_msgs(&p.drain_messages(FAM), &mut m);
        m
    }

    // mirror, from-scratch dump, prefixes with an undelivered change, and the
    // full-attribute comparison of the two (the decoded rows only carry the token and
    // the LLGR marker)
    fn check(&self) -> Val {
        let fresh = self.fresh();
        Val::L(vec![
            mirror_rows(&self.mirror),
            mirror_rows(&fresh),
            Val::L(
                self.chan
                    .iter()
                    .filter_map(|e| match e {
                        Ev::Change(c) => Some(Val::n(net_idx(&c.net))),
                        Ev::Walk(_) => Some(Val::n(999)),
                    })
                    .collect(),
            ),
            Val::b(fresh == self.mirror),
        ])
    }

    // distribute_update: fan out to the registered channel
    fn emit(&mut self, mut changes: Vec<table::NlriChange>, out: &mut Vec<Val>) {
        changes.sort_by_key(|c| net_idx(&c.net));
        for c in changes {
            out.push(Val::L(vec![
                Val::n(0),
                Val::L(vec![Val::n(c.dest_id)]),
                Val::n(net_idx(&c.net)),
                Val::b(c.best_changed),
                Val::b(c.any_changed),
                Val::opt(c.replaced_path_id.map(Val::n)),
                Val::L(
                    c.current_paths
                        .iter()
                        .map(|p| {
                            let (_, t, _) = decode(&p.attr);
                            let s = self
                                .srcs
                                .iter()
                                .position(|s| Arc::ptr_eq(s, &p.source))
                                .expect("verif: unknown source");
                            Val::L(vec![Val::n(p.local_path_id), Val::us(s), Val::n(t)])
                        })
                        .collect(),
                ),
            ]));
            if self.registered {
                self.chan.push_back(Ev::Change(c));
            }
        }
    }
}

fn run_case(case: &Val) -> Val {
    let cfg = case.at(0);
    let max = cfg.at(0).usize();
    let aptx = cfg.at(1).bool();
    let nbr_role = role_of(cfg.at(2).u32());
    let nbr_addr = addr_of(cfg.at(3).u32());
    let cluster_id = if cfg.at(4).bool() {
        Some(Ipv4Addr::new(9, 9, 9, 9))
    } else {
        None
    };
    let policy = if cfg.at(5).bool() {
        // one statement: ORIGIN == incomplete -> reject; default accept
        let st = Arc::new(table::Statement {
            name: Arc::from("rej-origin-2"),
            conditions: vec![table::Condition::Origin(2)],
            disposition: Some(table::Disposition::Reject),
            actions: Default::default(),
        });
        let p = Arc::new(table::Policy {
            name: Arc::from("p"),
            statements: vec![st],
        });
        Some(Arc::new(table::PolicyAssignment {
            name: Arc::from("a"),
            disposition: table::Disposition::Accept,
            policies: vec![p],
            needs_rpki: false,
        }))
    } else {
        None
    };
    let glue_limited = cfg.at(6).bool();
    let local_asn = 65001u32;
    let srcs: Vec<Arc<table::Source>> = cfg
        .at(7)
        .list()
        .iter()
        .map(|s| {
            Arc::new(table::Source::new(
                addr_of(s.at(0).u32()),
                IpAddr::V4(Ipv4Addr::new(10, 1, 0, 200)),
                s.at(2).u32(),
                local_asn,
                Ipv4Addr::new(10, 1, 0, s.at(0).u8()),
                role_of(s.at(1).u32()),
            ))
        })
        .collect();
    let ctx = PeerExportContext {
        role: nbr_role,
        local_asn,
        local_addr: IpAddr::V4(Ipv4Addr::new(10, 1, 0, 200)),
        link_addr: None,
        confederation_id: 0,
    };
    let mut w = World {
        table: table::Table::new(if cfg.list().len() > 8 { cfg.at(8).u32() } else { 0 }),
        srcs,
        max,
        aptx,
        remote_addr: nbr_addr,
        ctx,
        cluster_id,
        policy: policy.clone(),
        policy0: policy,
        glue_limited,
        registered: false,
        chan: VecDeque::new(),
        export_map: ExportMap::default(),
        pending: crate::peer_tx::PendingTx::new(aptx),
        mirror: Mirror::new(),
    };
    let mut out: Vec<Val> = Vec::new();
    // next hops currently unreachable (TableManager keeps this set and flags new paths)
    let mut bad_toks: Vec<u32> = Vec::new();
    for op in case.at(1).list() {
        match op.at(0).u32() {
            0 => {
                let (s, n, t) = (op.at(1).usize(), op.at(2).u32(), op.at(3).u32());
                // an explicitly next-hop-invalid path uses a next hop of its own that never
                // becomes reachable; otherwise the flag follows the reachability of nh_of(t)
                let explicit = op.at(5).bool();
                let nh = if explicit {
                    Some(bgp::Nexthop::V4(Ipv4Addr::new(10, 2, 9, 9)))
                } else {
                    nh_of(t)
                };
                let r = w.table.insert(
                    w.srcs[s].clone(),
                    FAM,
                    net_of(n),
                    0,
                    nh,
                    attrs_of(s as u32, t),
                    None,
                    op.at(4).bool(),
                    explicit || bad_toks.contains(&t),
                    None,
                    0,
                );
                if let table::InsertResult::Changed(c) = r {
                    w.emit(vec![c], &mut out);
                }
            }
            1 => {
                let (s, n) = (op.at(1).usize(), op.at(2).u32());
                let (c, _) = w.table.remove(w.srcs[s].clone(), FAM, net_of(n), 0, None);
                if let Some(c) = c {
                    w.emit(vec![c], &mut out);
                }
            }
            2 => {
                let s = op.at(1).usize();
                let (cs, _) = w.table.drop(w.srcs[s].remote_addr, FAM);
                w.emit(cs, &mut out);
            }
            3 => {
                let s = op.at(1).usize();
                let cs = w.table.restale_llgr(w.srcs[s].remote_addr, FAM);
                out.push(Val::L(vec![Val::n(1)]));
                w.emit(cs, &mut out);
            }
            4 => {
                // run_select on the oldest queued event: handle_prefix_update, or the
                // RefreshWalk arm (apply_refresh_walk + schedule_eor)
                match w.chan.pop_front() {
                    Some(Ev::Change(c)) => {
                        let mut em = std::mem::take(&mut w.export_map);
                        let mut p =
                            std::mem::replace(&mut w.pending, crate::peer_tx::PendingTx::new(aptx));
                        w.process(&c, &mut em, &mut p);
                        w.export_map = em;
                        w.pending = p;
                    }
                    Some(Ev::Walk(changes)) => {
                        let mut em = std::mem::take(&mut w.export_map);
                        let mut p =
                            std::mem::replace(&mut w.pending, crate::peer_tx::PendingTx::new(aptx));
                        for c in &changes {
                            // once per path, named as replaced, for add-path
                            let replaced: Vec<Option<u32>> = if w.max > 1 {
                                c.current_paths.iter().map(|p| Some(p.local_path_id)).collect()
                            } else {
                                vec![None]
                            };
                            for r in replaced {
                                let mut c = c.clone();
                                c.replaced_path_id = r;
                                w.process(&c, &mut em, &mut p);
                            }
                        }
                        p.schedule_eor();
                        w.export_map = em;
                        w.pending = p;
                    }
                    None => {}
                }
                out.push(Val::L(vec![Val::n(2), Val::b(w.pending.is_empty())]));
            }
            5 => {
                let msgs = w.pending.drain_messages(FAM);
                let (un, re, eor) = apply_msgs(&msgs, &mut w.mirror);
                out.push(Val::L(vec![
                    Val::n(3),
                    rows(&un),
                    rows(&re),
                    Val::L(eor.iter().map(|x| Val::n(*x)).collect()),
                    w.check(),
                ]));
            }
            6 => {
                let (em, p) = w.initial_dump();
                w.export_map = em;
                w.pending = p;
                w.chan.clear();
                w.mirror.clear();
                w.registered = true;
                out.push(Val::L(vec![Val::n(4)]));
            }
            7 => {
                // do_route_refresh -> TableManager::queue_refresh_walk: the snapshot is taken
                // under the shard lock and queued behind the changes already on the channel
                if w.registered {
                    let changes = w.snapshot();
                    w.chan.push_back(Ev::Walk(changes));
                }
                out.push(Val::L(vec![Val::n(5), Val::b(w.pending.is_empty())]));
            }
            10 => {
                // next-hop tracking: the next hop of token t becomes (un)reachable
                let (t, reachable) = (op.at(1).u32(), op.at(2).bool());
                bad_toks.retain(|x| *x != t);
                if !reachable {
                    bad_toks.push(t);
                }
                let cs = w
                    .table
                    .update_nexthop_validity(nh_of(t).unwrap().addr(), reachable);
                w.emit(cs, &mut out);
            }
            11 => {
                // graceful restart helper: the peer's paths become stale
                let s = op.at(1).usize();
                let cs = w.table.restale(w.srcs[s].remote_addr, FAM);
                w.emit(cs, &mut out);
            }
            12 => {
                // ... and are purged (EOR / restart timer)
                let s = op.at(1).usize();
                let (cs, _) = w.table.drop_stale(w.srcs[s].remote_addr, FAM, None);
                w.emit(cs, &mut out);
            }
            9 => {
                // the neighbour's export policy assignment is replaced: 0 = the configured
                // one, 1 = accept everything and add community 3:1
                w.policy = if op.at(1).u32() == 0 { w.policy0.clone() } else { Some(tag_policy()) };
                out.push(Val::L(vec![Val::n(8)]));
            }
            8 => {
                // session end: unregister_peer drops the channel, the session state goes with it
                w.registered = false;
                w.chan.clear();
                w.export_map = ExportMap::default();
                w.pending = crate::peer_tx::PendingTx::new(aptx);
                w.mirror.clear();
                out.push(Val::L(vec![Val::n(7)]));
            }
            _ => panic!("verif: bad op"),
        }
    }
    out.push(Val::L(vec![Val::n(6), Val::b(w.pending.is_empty()), w.check()]));
    Val::L(out)
}

#[test]
fn verif_export_c01_cases() {
    val::run_cases(run_case);
}
