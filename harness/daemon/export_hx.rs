// body of `mod verif_hx` in daemon/src/event/export.rs
mod c01 { include!(concat!(env!("VERIF_HX_DIR"), "/daemon/export_c01_hx.rs")); }
