// Correspondence harness for daemon/src/event/export.rs (property C09).
// Included as the body of `event::export::verif_hx` under
// cfg(all(test, osrg_rustybgp_verif)); private items of export.rs and of
// event/mod.rs are reachable through `use super::*;`.
//
// One case = one call of a real function; the observation is what that
// function returned / handed to the sink, printed as nested integers in the
// shape of coq/Model/Export.v `run_case`.
use super::*;

#[allow(dead_code)]
mod val {
    include!(concat!(env!("VERIF_HX_DIR"), "/common/val.rs"));
}
use val::Val;

// ---- decoding of case data -------------------------------------------------

// attribute: [code, flags, kind, payload]; kind 0 = Val(u32), 1 = Bin(bytes),
// 2 = Opaque(bytes).  Kinds 0/1 go through the public constructors, which
// choose the canonical flags themselves (the case carries the same value so
// that both sides print it).
fn attr_of(v: &Val) -> packet::Attribute {
    let code = v.at(0).u8();
    let flags = v.at(1).u8();
    let kind = v.at(2).int();
    if kind == 2 {
        return packet::Attribute::new_opaque(code, flags, v.at(3).bytes());
    }
    if packet::Attribute::canonical_flags(code) != Some(flags) {
        // recognised attribute with non-canonical flag bits (Partial, Extended
        // Length, the unused low bits): only the UPDATE decoder produces these
        return wire_attr(code, flags, kind, v.at(3));
    }
    match kind {
        0 => packet::Attribute::new_with_value(code, v.at(3).u32())
            .expect("verif: generator uses known codes for Val attributes"),
        1 => packet::Attribute::new_with_bin(code, v.at(3).bytes())
            .expect("verif: generator uses known codes for Bin attributes"),
        k => panic!("verif: bad attribute kind {}", k),
    }
}

// one attribute through the real decoder: an UPDATE without NLRI that carries it
fn wire_attr(code: u8, flags: u8, kind: i128, payload: &Val) -> packet::Attribute {
    let value: Vec<u8> = if kind == 0 {
        if code == packet::Attribute::ORIGIN {
            vec![payload.u8()]
        } else {
            payload.u32().to_be_bytes().to_vec()
        }
    } else {
        payload.bytes()
    };
    let mut a = vec![flags, code];
    if flags & 0x10 != 0 {
        a.extend_from_slice(&(value.len() as u16).to_be_bytes());
    } else {
        a.push(value.len() as u8);
    }
    a.extend_from_slice(&value);
    let total = 19 + 2 + 2 + a.len();
    let mut m = vec![0xffu8; 16];
    m.extend_from_slice(&(total as u16).to_be_bytes());
    m.push(2);
    m.extend_from_slice(&[0, 0]);
    m.extend_from_slice(&(a.len() as u16).to_be_bytes());
    m.extend_from_slice(&a);
    let mut codec = bgp::PeerCodec::new();
    match codec.parse_message(&m) {
        Ok(bgp::ParsedMessage::Update(bgp::ParsedUpdate::Routes { attrs, .. })) if attrs.len() == 1 => {
            attrs.into_iter().next().unwrap()
        }
        _ => panic!("verif: the decoder did not keep attribute {} flags {:#x}", code, flags),
    }
}

fn attrs_of(v: &Val) -> Arc<Vec<packet::Attribute>> {
    Arc::new(v.list().iter().map(attr_of).collect())
}

fn attr_val(a: &packet::Attribute) -> Val {
    let (kind, payload) = if let Some(x) = a.value() {
        (0u8, Val::n(x))
    } else if a.is_opaque() {
        (2u8, Val::from_bytes(a.binary().unwrap()))
    } else {
        (1u8, Val::from_bytes(a.binary().unwrap()))
    };
    Val::L(vec![Val::n(a.code()), Val::n(a.flags()), Val::n(kind), payload])
}

fn attrs_val(a: &[packet::Attribute]) -> Val {
    Val::L(a.iter().map(attr_val).collect())
}

fn v4_of(b: &[u8]) -> Ipv4Addr {
    Ipv4Addr::new(b[0], b[1], b[2], b[3])
}
fn v6_of(b: &[u8]) -> Ipv6Addr {
    let mut o = [0u8; 16];
    o.copy_from_slice(b);
    Ipv6Addr::from(o)
}

// ip: [0, 4 bytes] | [1, 16 bytes]
fn ip_of(v: &Val) -> IpAddr {
    let b = v.at(1).bytes();
    match v.at(0).int() {
        0 => IpAddr::V4(v4_of(&b)),
        _ => IpAddr::V6(v6_of(&b)),
    }
}

// nexthop: [0, a4] | [1, a16] | [2, a16, ll16]
fn nh_of(v: &Val) -> bgp::Nexthop {
    match v.at(0).int() {
        0 => bgp::Nexthop::V4(v4_of(&v.at(1).bytes())),
        1 => bgp::Nexthop::V6(v6_of(&v.at(1).bytes())),
        _ => bgp::Nexthop::V6LinkLocal(v6_of(&v.at(1).bytes()), v6_of(&v.at(2).bytes())),
    }
}
fn nh_opt_of(v: &Val) -> Option<bgp::Nexthop> {
    v.list().first().map(nh_of)
}
fn nh_val(n: &bgp::Nexthop) -> Val {
    match n {
        bgp::Nexthop::V4(a) => Val::L(vec![Val::n(0u8), Val::from_bytes(&a.octets())]),
        bgp::Nexthop::V6(a) => Val::L(vec![Val::n(1u8), Val::from_bytes(&a.octets())]),
        bgp::Nexthop::V6LinkLocal(a, ll) => Val::L(vec![
            Val::n(2u8),
            Val::from_bytes(&a.octets()),
            Val::from_bytes(&ll.octets()),
        ]),
    }
}
fn nh_opt_val(n: &Option<bgp::Nexthop>) -> Val {
    Val::opt(n.as_ref().map(nh_val))
}

fn role_of(v: &Val) -> PeerRole {
    match v.int() {
        0 => PeerRole::Ebgp,
        1 => PeerRole::RsClient,
        2 => PeerRole::Ibgp,
        3 => PeerRole::IbgpRrClient,
        4 => PeerRole::ConfedEbgp,
        r => panic!("verif: bad role {}", r),
    }
}

// ectx: [role, local_asn, local_addr(ip), link_addr(opt 16 bytes), confed_id]
fn ctx_of(v: &Val) -> PeerExportContext {
    PeerExportContext {
        role: role_of(v.at(0)),
        local_asn: v.at(1).u32(),
        local_addr: ip_of(v.at(2)),
        link_addr: v.at(3).list().first().map(|b| v6_of(&b.bytes())),
        confederation_id: v.at(4).u32(),
    }
}

// source: [0] local | [1] kernel | [2, raddr(ip), rasn, lasn, rid, role, llgr_stale]
fn src_of(v: &Val) -> Arc<table::Source> {
    match v.at(0).int() {
        0 => table::Source::local(),
        1 => table::Source::kernel(),
        _ => {
            let s = table::Source::new(
                ip_of(v.at(1)),
                IpAddr::V4(Ipv4Addr::new(127, 0, 0, 1)),
                v.at(2).u32(),
                v.at(3).u32(),
                Ipv4Addr::from(v.at(4).u32()),
                role_of(v.at(5)),
            );
            if v.at(6).bool() {
                s.mark_llgr_stale();
            }
            Arc::new(s)
        }
    }
}

fn src_val(s: &table::Source) -> Val {
    if s.is_local() {
        Val::L(vec![Val::n(0u8)])
    } else if s.is_kernel() {
        Val::L(vec![Val::n(1u8)])
    } else {
        let b = match s.remote_addr {
            IpAddr::V4(a) => a.octets().to_vec(),
            IpAddr::V6(a) => a.octets().to_vec(),
        };
        Val::L(vec![Val::n(2u8), Val::from_bytes(&b)])
    }
}

fn cid_of(v: &Val) -> Option<Ipv4Addr> {
    v.list().first().map(|x| Ipv4Addr::from(x.u32()))
}

fn family_of(v: &Val) -> Family {
    let f = v.u32();
    Family::new((f >> 16) as u16, (f & 0xff) as u8)
}

// ---- recording sink -------------------------------------------------------

struct RecSink {
    ops: Vec<Val>,
}

impl NlriSink for RecSink {
    fn reach(
        &mut self,
        dest_id: u32,
        _nlri: packet::Nlri,
        path_id: u32,
        nexthop: Option<bgp::Nexthop>,
        attr: Arc<Vec<packet::Attribute>>,
        source: &Arc<table::Source>,
    ) {
        self.ops.push(Val::L(vec![
            Val::n(1u8),
            Val::n(dest_id),
            Val::n(path_id),
            nh_opt_val(&nexthop),
            attrs_val(&attr),
            src_val(source),
        ]));
    }
    fn unreach(&mut self, dest_id: u32, _nlri: packet::Nlri, path_id: u32) {
        self.ops
            .push(Val::L(vec![Val::n(0u8), Val::n(dest_id), Val::n(path_id)]));
    }
}

// hash-set iteration order of the Add-Path withdrawals is unspecified: sort
// the leading run of unreach operations by path id
fn canon_ops(mut ops: Vec<Val>) -> Vec<Val> {
    let n = ops
        .iter()
        .take_while(|o| o.at(0).int() == 0)
        .count();
    ops[..n].sort_by_key(|o| (o.at(1).int(), o.at(2).int()));
    ops
}


fn disp_of(v: &Val) -> table::Disposition {
    match v.int() {
        0 => table::Disposition::Pass,
        1 => table::Disposition::Accept,
        _ => table::Disposition::Reject,
    }
}

fn policy_of(v: &Val) -> table::PolicyAssignment {
    let nexthop = v.at(0).list().first().map(|a| match a.at(0).int() {
        0 => table::NexthopAction::Address(ip_of(a.at(1))),
        1 => table::NexthopAction::PeerSelf,
        2 => table::NexthopAction::PeerAddress,
        _ => table::NexthopAction::Unchanged,
    });
    let med = v.at(1).list().first().map(|a| table::MedAction {
        action_type: if a.at(0).int() == 0 {
            table::MedActionType::Mod
        } else {
            table::MedActionType::Replace
        },
        value: a.at(1).int() as i64,
    });
    let stmt = table::Statement {
        name: Arc::from("verif-stmt"),
        conditions: vec![],
        disposition: match disp_of(v.at(2)) {
            table::Disposition::Pass => None,
            d => Some(d),
        },
        actions: table::Actions {
            nexthop,
            community: None,
            local_pref: None,
            med,
            as_prepend: v.list().get(4).and_then(|o| o.list().first()).map(|a| table::AsPrependAction {
                asn: a.at(0).u32(),
                repeat: a.at(1).u32(),
                use_left_most: a.at(2).bool(),
            }),
            ext_community: None,
            large_community: None,
            origin: None,
        },
    };
    let pol = table::Policy {
        name: Arc::from("verif-policy"),
        statements: vec![Arc::new(stmt)],
    };
    table::PolicyAssignment {
        name: Arc::from("verif-assignment"),
        disposition: disp_of(v.at(3)),
        policies: vec![Arc::new(pol)],
        needs_rpki: false,
    }
}

fn change_of(ch: &Val) -> table::NlriChange {
    let paths: Vec<table::Path> = ch
        .at(5)
        .list()
        .iter()
        .map(|p| table::Path {
            local_path_id: p.at(0).u32(),
            source: src_of(p.at(1)),
            nexthop: nh_opt_of(p.at(2)),
            attr: attrs_of(p.at(3)),
        })
        .collect();
    table::NlriChange {
        family: family_of(ch.at(0)),
        net: "10.9.0.0/24".parse().unwrap(),
        dest_id: ch.at(1).u32(),
        best_changed: ch.at(2).bool(),
        any_changed: ch.at(3).bool(),
        replaced_path_id: ch.at(4).list().first().map(|x| x.u32()),
        current_paths: Arc::new(paths),
    }
}

// [13, ctx, emax, raddr, cid, family, [change..], probe]: a history through one ExportMap
fn run_history(case: &Val) -> Val {
    let ctx = ctx_of(case.at(1));
    let emax = case.at(2).usize();
    let raddr = ip_of(case.at(3));
    let cid = cid_of(case.at(4));
    let family = family_of(case.at(5));
    let mut map = if emax == 1 {
        ExportMap::new([])
    } else {
        ExportMap::new([family])
    };
    let mut all: Vec<Val> = Vec::new();
    for ch in case.at(6).list() {
        let update = change_of(ch);
        let mut sink = RecSink { ops: Vec::new() };
        process_nlri_change(
            &update, emax, raddr, &mut map, &mut sink, &ctx, None, cid, None, None, None,
        );
        all.extend(canon_ops(sink.ops));
    }
    let probe: Vec<Val> = case
        .at(7)
        .list()
        .iter()
        .map(|d| {
            let mut ids: Vec<u32> = map.sent_path_ids(family, d.u32()).into_iter().collect();
            ids.sort();
            Val::L(ids.into_iter().map(Val::n).collect())
        })
        .collect();
    Val::L(vec![Val::L(all), Val::L(probe)])
}

fn run_process(case: &Val, policy: Option<&table::PolicyAssignment>) -> Val {
    run_process_rtc(case, policy, None)
}

fn run_process_rtc(
    case: &Val,
    policy: Option<&table::PolicyAssignment>,
    rtc: Option<&crate::rtc::RtcFilter>,
) -> Val {
    let ctx = ctx_of(case.at(1));
    let emax = case.at(2).usize();
    let raddr = ip_of(case.at(3));
    let cid = cid_of(case.at(4));
    let ch = case.at(5);
    let family = family_of(ch.at(0));
    let dest_id = ch.at(1).u32();
    let paths: Vec<table::Path> = ch
        .at(5)
        .list()
        .iter()
        .map(|p| table::Path {
            local_path_id: p.at(0).u32(),
            source: src_of(p.at(1)),
            nexthop: nh_opt_of(p.at(2)),
            attr: attrs_of(p.at(3)),
        })
        .collect();
    let update = table::NlriChange {
        family,
        net: "10.9.0.0/24".parse().unwrap(),
        dest_id,
        best_changed: ch.at(2).bool(),
        any_changed: ch.at(3).bool(),
        replaced_path_id: ch.at(4).list().first().map(|x| x.u32()),
        current_paths: Arc::new(paths),
    };
    let em = case.at(6);
    let mut map = match em.at(0).int() {
        0 => ExportMap::new([]),
        1 => {
            let mut m = ExportMap::new([]);
            // a Plain family map exists only after a first mark_sent
            let ds = em.at(1).list();
            if ds.is_empty() {
                m.mark_sent(family, 0xffff_fff0, 0);
                m.mark_withdrawn(family, 0xffff_fff0, 0);
            }
            for d in ds {
                m.mark_sent(family, d.u32(), 0);
            }
            m
        }
        _ => {
            let mut m = ExportMap::new([family]);
            for kv in em.at(1).list() {
                for pid in kv.at(1).list() {
                    m.mark_sent(family, kv.at(0).u32(), pid.u32());
                }
            }
            m
        }
    };
    let mut sink = RecSink { ops: Vec::new() };
    process_nlri_change(
        &update, emax, raddr, &mut map, &mut sink, &ctx, policy, cid, None, None, rtc,
    );
    let probe: Vec<Val> = case
        .at(7)
        .list()
        .iter()
        .map(|d| {
            let mut ids: Vec<u32> =
                map.sent_path_ids(family, d.u32()).into_iter().collect();
            ids.sort();
            Val::L(ids.into_iter().map(Val::n).collect())
        })
        .collect();
    Val::L(vec![Val::L(canon_ops(sink.ops)), Val::L(probe)])

}

// ---- cases ------------------------------------------------------------------

fn as_path_attr(a: &Val) -> packet::Attribute {
    attr_of(a)
}

fn run_case(case: &Val) -> Val {
    let tag = case.at(0).int();
    match tag {
        // [0, ty, asn, attr]
        0 => {
            let a = as_path_attr(case.at(3));
            let asn = case.at(2).u32();
            let r = if case.at(1).int() == 3 {
                a.as_path_prepend_confed(asn)
            } else {
                a.as_path_prepend(asn)
            };
            attr_val(&r)
        }
        // [1, attr]
        1 => attr_val(&as_path_attr(case.at(1)).as_path_strip_confed()),
        // [2, attrs, local_asn, confed]
        2 => Val::b(is_as_loop(
            &attrs_of(case.at(1)),
            case.at(2).u32(),
            case.at(3).u32(),
        )),
        // [3, ctx, attrs]
        3 => attrs_val(&ctx_of(case.at(1)).export_attrs(&attrs_of(case.at(2)))),
        // [4, ctx, attrs, nh, family, is_local]
        4 => {
            let ctx = ctx_of(case.at(1));
            let mut attrs = attrs_of(case.at(2));
            let mut nh = nh_opt_of(case.at(3));
            ctx.pre_policy_defaults(&mut attrs, &mut nh, family_of(case.at(4)), case.at(5).bool());
            Val::L(vec![attrs_val(&attrs), nh_opt_val(&nh)])
        }
        // [5, attrs, rid, cid]
        5 => attrs_val(&rr_reflect_attrs(
            &attrs_of(case.at(1)),
            case.at(2).u32(),
            Ipv4Addr::from(case.at(3).u32()),
        )),
        // [6, attrs]
        6 => attrs_val(&with_llgr_stale_community(&attrs_of(case.at(1)))),
        // [7, attrs]
        7 => attrs_val(&inject_local_pref_if_absent(attrs_of(case.at(1)))),
        // [8, source, dest_role, cid]
        8 => {
            let s = src_of(case.at(1));
            let r = role_of(case.at(2));
            Val::L(vec![
                Val::b(is_ibgp_learned(&s)),
                Val::b(ibgp_split_horizon_suppress(&s, r, cid_of(case.at(3)))),
                Val::b(rs_isolation_suppress(&s, r)),
            ])
        }
        // [9, ctx, emax, raddr, cid, change, emap, probe]
        //   change = [family, dest, best_changed, any_changed, replaced(opt), paths]
        //   path   = [lpid, source, nh(opt), attrs]
        //   emap   = [0] | [1, dests] | [2, [[dest, [pids]]..]]
        9 => run_process(case, None),
        // [12, ..as 9.., policy]: the same with a real one-statement export policy
        //   policy = [nh_action(opt), med_action(opt), statement disposition, default disposition, as_prepend(opt)]
        //   as_prepend = [asn, repeat, use_left_most]
        //   nh_action = [0, ip] | [1] self | [2] peer | [3] unchanged; med_action = [0, delta] | [1, value]
        //   disposition: 0 pass, 1 accept, 2 reject
        12 => {
            let pa = policy_of(case.at(8));
            run_process(case, Some(&pa))
        }
        13 => run_history(case),
        // [14, ..as 9.., [accept_all, [rt8..]]]: with a real RtcFilter built by from_paths
        14 => {
            let r = case.at(8);
            let src = Arc::new(table::Source::new(
                "10.0.0.7".parse().unwrap(),
                IpAddr::V4(Ipv4Addr::new(127, 0, 0, 1)),
                65002,
                65001,
                Ipv4Addr::new(10, 0, 0, 7),
                PeerRole::Ebgp,
            ));
            let mut paths: Vec<table::SoftResetPath> = Vec::new();
            let mk = |n: packet::rtc::RtcNlri| -> table::SoftResetPath {
                (Family::RTC, packet::Nlri::Rtc(n), 0, None, src.clone(), Arc::new(Vec::new()), 0)
            };
            if r.at(0).bool() {
                paths.push(mk(packet::rtc::RtcNlri::wildcard()));
            }
            for rt in r.at(1).list() {
                let mut b = [0u8; 8];
                b.copy_from_slice(&rt.bytes());
                paths.push(mk(packet::rtc::RtcNlri {
                    match_type: packet::rtc::MatchType::ExactMatch { origin_as: 65002, route_target: b },
                }));
            }
            let f = crate::rtc::RtcFilter::from_paths(&paths);
            run_process_rtc(case, None, Some(&f))
        }
        // [10, ctx, router_id, cid, attrs]: the receive path for one reach UPDATE, through the
        // real PeerSession::rx_msg on an Established session (since 76a892d the AS-loop test
        // sits in rx_msg's route extraction, the message still goes through the FSM); the
        // Loc-RIB is read back.
        10 => {
            let ctx = ctx_of(case.at(1));
            let rid = case.at(2).u32();
            let cid = cid_of(case.at(3));
            let attrs = attrs_of(case.at(4));
            let rt = tokio::runtime::Builder::new_current_thread()
                .enable_all()
                .build()
                .unwrap();
            rt.block_on(async move {
                use crate::fsm::Input;
                let tables: TableHandle = Arc::new(crate::table_manager::TableManager::new(1));
                let fsm = crate::fsm::PeerFsm::new(rid, ctx.local_asn, vec![], 90, 0, FnvHashMap::default());
                let conn_arbiter = Arc::new(std::sync::Mutex::new(ConnArbiter::new(fsm)));
                let context = Arc::new(std::sync::Mutex::new(PeerContext {
                    conn_arbiter,
                    active_connect_cancel_tx: None,
                    active_connect_join_handle: None,
                    gr_state: crate::gr::GrState::new(),
                    gr_restart_timer: None,
                    llgr_family_timers: FnvHashMap::default(),
                    rtc_state: crate::rtc::RtcState::new(),
                    rtc_eor_timer: None,
                }));
                let remote: IpAddr = "10.0.0.2".parse().unwrap();
                let mut s = PeerSession::new_for_test(remote, context.clone(), tables.clone());
                let role = ctx.role;
                let rasn = if matches!(role, PeerRole::Ibgp | PeerRole::IbgpRrClient) {
                    ctx.local_asn
                } else {
                    65002
                };
                // an arbiter whose FSM has the case's router id, brought to Established
                let arbiter = Arc::new(std::sync::Mutex::new(ConnArbiter::new(crate::fsm::PeerFsm::new(
                    rid,
                    ctx.local_asn,
                    vec![],
                    90,
                    0,
                    FnvHashMap::default(),
                ))));
                context.lock().unwrap().conn_arbiter = Arc::clone(&arbiter);
                s.conn_arbiter = Arc::clone(&arbiter);
                {
                    let mut a = arbiter.lock().unwrap();
                    let _ = a.process(s.role, Input::Connected(false));
                    let _ = a.process(
                        s.role,
                        Input::MessageReceived(bgp::Message::Open(bgp::Open {
                            as_number: rasn,
                            router_id: 0x0a00_0002,
                            holdtime: bgp::HoldTime::new(90).unwrap(),
                            capability: vec![],
                        })),
                    );
                    let _ = a.process(s.role, Input::MessageReceived(bgp::Message::Keepalive));
                    assert!(a.state(s.role) == crate::fsm::State::Established, "verif: session not Established");
                }
                s.source.insert(
                    Family::IPV4,
                    Arc::new(table::Source::new(
                        remote,
                        IpAddr::V4(Ipv4Addr::new(127, 0, 0, 1)),
                        rasn,
                        ctx.local_asn,
                        Ipv4Addr::new(10, 0, 0, 2),
                        role,
                    )),
                );
                s.export_ctx = ctx;
                s.local_router_id = Ipv4Addr::from(rid);
                s.cluster_id = cid;
                let (tx, _rx) = mpsc::unbounded_channel();
                let (bfd_tx, _bfd_rx) = mpsc::unbounded_channel();
                let global: GlobalHandle = Arc::new(tokio::sync::RwLock::new(Global::new(tx, bfd_tx)));
                let msg = bgp::Message::Update(bgp::Update::Reach {
                    family: Family::IPV4,
                    entries: vec![packet::PathNlri::new("10.9.0.0/24".parse().unwrap())],
                    nexthop: Some(bgp::Nexthop::V4(Ipv4Addr::new(10, 0, 0, 2))),
                    attr: attrs,
                });
                let la: SocketAddr = "127.0.0.1:179".parse().unwrap();
                let ra: SocketAddr = "10.0.0.2:40000".parse().unwrap();
                let step = s.rx_msg(&global, la, ra, msg).await;
                assert!(matches!(step, Step::Continue), "verif: rx_msg ended the session");
                let changes = tables.collect_loc_rib_paths(Family::IPV4);
                match changes.first().and_then(|c| c.current_paths.first()) {
                    None => Val::L(vec![]),
                    Some(p) => Val::L(vec![attrs_val(&p.attr)]),
                }
            })
        }
        // [11, ctx, emax, raddr, cid, source, nh, attrs]: a route is inserted into a real
        // table::Table and exported to one neighbour; then the LLGR period of its
        // source begins (Table::restale_llgr) and the resulting changes are exported
        // to the same neighbour.  Observation: the sink operations of the two phases
        // (dest id and path id are the table's allocation, printed as 1).
        11 => {
            let ctx = ctx_of(case.at(1));
            let emax = case.at(2).usize();
            let raddr = ip_of(case.at(3));
            let cid = cid_of(case.at(4));
            let src = src_of(case.at(5));
            let nh = nh_opt_of(case.at(6));
            let attrs = attrs_of(case.at(7));
            let mut t = table::Table::new(0);
            let net: packet::Nlri = "10.9.0.0/24".parse().unwrap();
            let mut map = if emax == 1 {
                ExportMap::new([])
            } else {
                ExportMap::new([Family::IPV4])
            };
            let norm = |ops: Vec<Val>| -> Val {
                Val::L(
                    canon_ops(ops)
                        .into_iter()
                        .map(|o| {
                            let mut l = o.list().to_vec();
                            l[1] = Val::n(1u8);
                            if emax != 1 {
                                l[2] = Val::n(1u8);
                            }
                            Val::L(l)
                        })
                        .collect(),
                )
            };
            let mut sink = RecSink { ops: Vec::new() };
            match t.insert(
                src.clone(), Family::IPV4, net.clone(), 0, nh, attrs.clone(), Some(attrs), false, false, None, 0,
            ) {
                table::InsertResult::Changed(ch) => {
                    process_nlri_change(&ch, emax, raddr, &mut map, &mut sink, &ctx, None, cid, None, None, None);
                }
                _ => panic!("verif: insert into an empty table must change it"),
            }
            let ops1 = std::mem::take(&mut sink.ops);
            for ch in t.restale_llgr(src.remote_addr, Family::IPV4) {
                process_nlri_change(&ch, emax, raddr, &mut map, &mut sink, &ctx, None, cid, None, None, None);
            }
            // TableManager::mark_llgr_stale: NO_LLGR paths are dropped right after the marking
            for ch in t.drop_no_llgr(src.remote_addr, Family::IPV4, None).0 {
                process_nlri_change(&ch, emax, raddr, &mut map, &mut sink, &ctx, None, cid, None, None, None);
            }
            let ops2 = std::mem::take(&mut sink.ops);
            Val::L(vec![norm(ops1), norm(ops2)])
        }
        // [15, [[local_pref, filtered, nexthop_invalid]..]]: one destination, every path from the
        // same peer (distinct add-path ids, distinct LOCAL_PREF so that the order is decided),
        // then the real Table::restale_llgr; observation: the change stream, path ids renamed to
        // the 1-based position of the path in the case
        15 => {
            let specs = case.at(1).list();
            let mut t = table::Table::new(0);
            let net: packet::Nlri = "10.9.0.0/24".parse().unwrap();
            let peer: IpAddr = "10.0.0.2".parse().unwrap();
            let src = Arc::new(table::Source::new(
                peer,
                IpAddr::V4(Ipv4Addr::new(127, 0, 0, 1)),
                65002,
                65001,
                Ipv4Addr::new(10, 0, 0, 2),
                PeerRole::Ebgp,
            ));
            for (k, sp) in specs.iter().enumerate() {
                let attrs = Arc::new(vec![
                    packet::Attribute::new_with_value(packet::Attribute::ORIGIN, 0).unwrap(),
                    packet::Attribute::new_with_value(packet::Attribute::LOCAL_PREF, sp.at(0).u32()).unwrap(),
                ]);
                let _ = t.insert(
                    src.clone(),
                    Family::IPV4,
                    net.clone(),
                    (k + 1) as u32,
                    Some(bgp::Nexthop::V4(Ipv4Addr::new(10, 0, 0, 9))),
                    attrs.clone(),
                    Some(attrs),
                    sp.at(1).bool(),
                    sp.at(2).bool(),
                    None,
                    0,
                );
            }
            let rename = |p: &table::Path| -> Val {
                let lp = p
                    .attr
                    .iter()
                    .find(|a| a.code() == packet::Attribute::LOCAL_PREF)
                    .and_then(|a| a.value())
                    .unwrap();
                Val::us(1 + specs.iter().position(|sp| sp.at(0).u32() == lp).unwrap())
            };
            let changes = t.restale_llgr(peer, Family::IPV4);
            Val::L(
                changes
                    .iter()
                    .map(|c| {
                        let rep = c.replaced_path_id.map(|pid| {
                            rename(c.current_paths.iter().find(|p| p.local_path_id == pid).unwrap())
                        });
                        Val::L(vec![
                            Val::b(c.best_changed),
                            Val::b(c.any_changed),
                            Val::opt(rep),
                            Val::L(c.current_paths.iter().map(rename).collect()),
                        ])
                    })
                    .collect(),
            )
        }
        // [16, ..as 11..]: the same scenario through the real TableManager: insert_route, the
        // registered neighbour's event channel, mark_llgr_stale (restale_llgr + drop_no_llgr +
        // distribute_update); every NlriChange the channel delivers goes through process_nlri_change
        16 => {
            let ctx = ctx_of(case.at(1));
            let emax = case.at(2).usize();
            let raddr = ip_of(case.at(3));
            let cid = cid_of(case.at(4));
            let src = src_of(case.at(5));
            let nh = nh_opt_of(case.at(6));
            let attrs = attrs_of(case.at(7));
            let rt = tokio::runtime::Builder::new_current_thread().enable_all().build().unwrap();
            rt.block_on(async move {
                let tables: TableHandle = Arc::new(crate::table_manager::TableManager::new(1));
                let mut rx = tables.register_peer(raddr, FnvHashSet::default(), |_| {});
                let mut map = if emax == 1 { ExportMap::new([]) } else { ExportMap::new([Family::IPV4]) };
                let norm = |ops: Vec<Val>| -> Val {
                    Val::L(
                        canon_ops(ops)
                            .into_iter()
                            .map(|o| {
                                let mut l = o.list().to_vec();
                                l[1] = Val::n(1u8);
                                if emax != 1 {
                                    l[2] = Val::n(1u8);
                                }
                                Val::L(l)
                            })
                            .collect(),
                    )
                };
                let mut drain = |rx: &mut mpsc::UnboundedReceiver<ToPeerEvent>, map: &mut ExportMap| -> Vec<Val> {
                    let mut sink = RecSink { ops: Vec::new() };
                    while let Ok(ev) = rx.try_recv() {
                        if let ToPeerEvent::NlriChange(ch) = ev {
                            process_nlri_change(&ch, emax, raddr, map, &mut sink, &ctx, None, cid, None, None, None);
                        }
                    }
                    sink.ops
                };
                let net: packet::Nlri = "10.9.0.0/24".parse().unwrap();
                let exceeded = tables.insert_route(src.clone(), Family::IPV4, packet::PathNlri::new(net), nh, attrs, None, 0);
                assert!(!exceeded);
                let ops1 = drain(&mut rx, &mut map);
                tables.mark_llgr_stale(src.remote_addr, &[Family::IPV4]);
                let ops2 = drain(&mut rx, &mut map);
                Val::L(vec![norm(ops1), norm(ops2)])
            })
        }
        // [17, has_family, ctx, emax, raddr, cid, family, [change..], policy(opt), [[dest, key]..]]:
        // the real PeerSession::handle_prefix_update for every change (its own send-max lookup,
        // address, cluster id, export context, the session's export policy) into the real
        // PendingTx; observation: what drain_messages hands over for each probed (dest, key),
        // and ExportMap::sent_path_ids.  The NLRI is 10.9.<dest>.0/24.
        17 => {
            let has_family = case.at(1).bool();
            let ctx = ctx_of(case.at(2));
            let emax = case.at(3).usize();
            let raddr = ip_of(case.at(4));
            let cid = cid_of(case.at(5));
            let family = family_of(case.at(6));
            let rt = tokio::runtime::Builder::new_current_thread().enable_all().build().unwrap();
            rt.block_on(async move {
                let tables: TableHandle = Arc::new(crate::table_manager::TableManager::new(1));
                let fsm = crate::fsm::PeerFsm::new(1, ctx.local_asn, vec![], 90, 0, FnvHashMap::default());
                let conn_arbiter = Arc::new(std::sync::Mutex::new(ConnArbiter::new(fsm)));
                let context = Arc::new(std::sync::Mutex::new(PeerContext {
                    conn_arbiter,
                    active_connect_cancel_tx: None,
                    active_connect_join_handle: None,
                    gr_state: crate::gr::GrState::new(),
                    gr_restart_timer: None,
                    llgr_family_timers: FnvHashMap::default(),
                    rtc_state: crate::rtc::RtcState::new(),
                    rtc_eor_timer: None,
                }));
                let mut s = PeerSession::new_for_test(raddr, context, tables);
                let addpath_tx = emax != 1;
                s.export_ctx = ctx;
                s.cluster_id = cid;
                if has_family {
                    s.codec.set_family(family, bgp::FamilyState { addpath_rx: false, addpath_tx });
                }
                s.pending.insert(family, crate::peer_tx::PendingTx::new(addpath_tx));
                s.effective_max.insert(family, emax);
                s.export_map = if addpath_tx { ExportMap::new([family]) } else { ExportMap::new([]) };
                if let Some(pv) = case.at(8).list().first() {
                    s.state.export_policy.store(Some(Arc::new(policy_of(pv))));
                }
                for ch in case.at(7).list() {
                    let mut update = change_of(ch);
                    update.net = format!("10.9.{}.0/24", update.dest_id & 0xff).parse().unwrap();
                    s.handle_prefix_update(Arc::new(update));
                }
                let msgs = s.pending.get_mut(&family).unwrap().drain_messages(family);
                let dest_of = |n: &packet::Nlri| -> i128 {
                    let txt = format!("{}", n);
                    txt.split('.').nth(2).unwrap().parse::<i128>().unwrap()
                };
                let mut found: Vec<(i128, i128, Val)> = Vec::new();
                for m in &msgs {
                    match m {
                        bgp::Message::Update(bgp::Update::Unreach { entries, .. }) => {
                            for e in entries {
                                found.push((dest_of(&e.nlri), e.path_id as i128, Val::L(vec![Val::n(0u8)])));
                            }
                        }
                        bgp::Message::Update(bgp::Update::Reach { entries, nexthop, attr, .. }) => {
                            for e in entries {
                                found.push((
                                    dest_of(&e.nlri),
                                    e.path_id as i128,
                                    Val::L(vec![Val::n(1u8), nh_opt_val(nexthop), attrs_val(attr)]),
                                ));
                            }
                        }
                        _ => {}
                    }
                }
                let probes = case.at(9).list();
                let pend: Vec<Val> = probes
                    .iter()
                    .map(|dk| {
                        let hits: Vec<&(i128, i128, Val)> =
                            found.iter().filter(|f| f.0 == dk.at(0).int() && f.1 == dk.at(1).int()).collect();
                        assert!(hits.len() <= 1, "verif: a key is pending twice");
                        hits.first().map(|f| f.2.clone()).unwrap_or(Val::L(vec![]))
                    })
                    .collect();
                assert!(
                    found.iter().all(|f| probes.iter().any(|dk| f.0 == dk.at(0).int() && f.1 == dk.at(1).int())),
                    "verif: a pending entry outside the probed keys"
                );
                let sent: Vec<Val> = probes
                    .iter()
                    .map(|dk| {
                        let mut ids: Vec<u32> = s.export_map.sent_path_ids(family, dk.at(0).u32()).into_iter().collect();
                        ids.sort();
                        Val::L(ids.into_iter().map(Val::n).collect())
                    })
                    .collect();
                Val::L(vec![Val::L(pend), Val::L(sent)])
            })
        }
        // [18, 1, ctx, emax, raddr, cid, family, [change..] before, policy1(opt), [[dest, key]..], [change..] walk, policy2(opt)]:
        // as 17 for the changes before; what is pending is drained and dropped; then the session's
        // export policy is replaced and the real PeerSession::apply_refresh_walk runs over the walk.
        // the real PeerSession::handle_prefix_update for every change (its own send-max lookup,
        // address, cluster id, export context, the session's export policy) into the real
        // PendingTx; observation: what drain_messages hands over for each probed (dest, key),
        // and ExportMap::sent_path_ids.  The NLRI is 10.9.<dest>.0/24.
        18 => {
            let has_family = case.at(1).bool();
            let ctx = ctx_of(case.at(2));
            let emax = case.at(3).usize();
            let raddr = ip_of(case.at(4));
            let cid = cid_of(case.at(5));
            let family = family_of(case.at(6));
            let rt = tokio::runtime::Builder::new_current_thread().enable_all().build().unwrap();
            rt.block_on(async move {
                let tables: TableHandle = Arc::new(crate::table_manager::TableManager::new(1));
                let fsm = crate::fsm::PeerFsm::new(1, ctx.local_asn, vec![], 90, 0, FnvHashMap::default());
                let conn_arbiter = Arc::new(std::sync::Mutex::new(ConnArbiter::new(fsm)));
                let context = Arc::new(std::sync::Mutex::new(PeerContext {
                    conn_arbiter,
                    active_connect_cancel_tx: None,
                    active_connect_join_handle: None,
                    gr_state: crate::gr::GrState::new(),
                    gr_restart_timer: None,
                    llgr_family_timers: FnvHashMap::default(),
                    rtc_state: crate::rtc::RtcState::new(),
                    rtc_eor_timer: None,
                }));
                let mut s = PeerSession::new_for_test(raddr, context, tables);
                let addpath_tx = emax != 1;
                s.export_ctx = ctx;
                s.cluster_id = cid;
                if has_family {
                    s.codec.set_family(family, bgp::FamilyState { addpath_rx: false, addpath_tx });
                }
                s.pending.insert(family, crate::peer_tx::PendingTx::new(addpath_tx));
                s.effective_max.insert(family, emax);
                s.export_map = if addpath_tx { ExportMap::new([family]) } else { ExportMap::new([]) };
                if let Some(pv) = case.at(8).list().first() {
                    s.state.export_policy.store(Some(Arc::new(policy_of(pv))));
                }
                for ch in case.at(7).list() {
                    let mut update = change_of(ch);
                    update.net = format!("10.9.{}.0/24", update.dest_id & 0xff).parse().unwrap();
                    s.handle_prefix_update(Arc::new(update));
                }
                let _ = s.pending.get_mut(&family).unwrap().drain_messages(family);
                s.state.export_policy.store(case.at(11).list().first().map(|pv| Arc::new(policy_of(pv))));
                let walk: Vec<table::NlriChange> = case
                    .at(10)
                    .list()
                    .iter()
                    .map(|ch| {
                        let mut u = change_of(ch);
                        u.net = format!("10.9.{}.0/24", u.dest_id & 0xff).parse().unwrap();
                        u
                    })
                    .collect();
                s.apply_refresh_walk(family, &walk);
                let msgs = s.pending.get_mut(&family).unwrap().drain_messages(family);
                let dest_of = |n: &packet::Nlri| -> i128 {
                    let txt = format!("{}", n);
                    txt.split('.').nth(2).unwrap().parse::<i128>().unwrap()
                };
                let mut found: Vec<(i128, i128, Val)> = Vec::new();
                for m in &msgs {
                    match m {
                        bgp::Message::Update(bgp::Update::Unreach { entries, .. }) => {
                            for e in entries {
                                found.push((dest_of(&e.nlri), e.path_id as i128, Val::L(vec![Val::n(0u8)])));
                            }
                        }
                        bgp::Message::Update(bgp::Update::Reach { entries, nexthop, attr, .. }) => {
                            for e in entries {
                                found.push((
                                    dest_of(&e.nlri),
                                    e.path_id as i128,
                                    Val::L(vec![Val::n(1u8), nh_opt_val(nexthop), attrs_val(attr)]),
                                ));
                            }
                        }
                        _ => {}
                    }
                }
                let probes = case.at(9).list();
                let pend: Vec<Val> = probes
                    .iter()
                    .map(|dk| {
                        let hits: Vec<&(i128, i128, Val)> =
                            found.iter().filter(|f| f.0 == dk.at(0).int() && f.1 == dk.at(1).int()).collect();
                        assert!(hits.len() <= 1, "verif: a key is pending twice");
                        hits.first().map(|f| f.2.clone()).unwrap_or(Val::L(vec![]))
                    })
                    .collect();
                assert!(
                    found.iter().all(|f| probes.iter().any(|dk| f.0 == dk.at(0).int() && f.1 == dk.at(1).int())),
                    "verif: a pending entry outside the probed keys"
                );
                let sent: Vec<Val> = probes
                    .iter()
                    .map(|dk| {
                        let mut ids: Vec<u32> = s.export_map.sent_path_ids(family, dk.at(0).u32()).into_iter().collect();
                        ids.sort();
                        Val::L(ids.into_iter().map(Val::n).collect())
                    })
                    .collect();
                Val::L(vec![Val::L(pend), Val::L(sent)])
            })
        }
        t => panic!("verif: unknown case tag {}", t),
    }
}

#[test]
fn verif_export_cases() {
    val::run_cases(run_case);
}

// C01 export-level harness (unit u13)
mod c01 { include!(concat!(env!("VERIF_HX_DIR"), "/daemon/export_c01_hx.rs")); }
