// Correspondence harness for property C14 at the level of the daemon's Global
// (daemon/src/event/mod.rs): per-peer export-policy assignments and the
// Global::{add_policy, delete_policy, add_policy_assignment,
// delete_policy_assignment} wrappers with their per-peer in-use checks, on top
// of the PolicyTable calls the gRPC handlers make directly.
// Included as `event::verif_hx::c14`.  One case = a sequence of operations on
// one fresh Global + TableManager; one observation per operation.
//
//   [20, peer, [] | [[default, [policy..]]]]  Global::add_peer (export_policy from params)
//   [21, peer, dir, default, [policy..]]      Global::add_policy_assignment(name = peer address)
//   [22, peer, dir, [policy..], all]          Global::delete_policy_assignment(name = peer address)
//   [23, peer, <fields of an eval op from index 2>]  apply_export with the peer's effective export policy
//   [24]                                      dump: table dump + per-peer assignments + stored global slots
//   [25, vrps]  install VRPs in TableManager.rpki   [26, source, nlri, attrs, nh]  TableManager::apply_import (needs_rpki-gated)
//   [27, nlri, asn]  probe RpkiTable::validate of TableManager.rpki
//   1..8                                      as in harness/hx-policy, through the calls grpc.rs makes
use super::val::Val;
use super::{Global, PeerParams, TableManager};

include!(concat!(env!("VERIF_HX_DIR"), "/common/policy_ops.rs"));

fn peer_addr(v: &Val) -> IpAddr {
    IpAddr::V4(Ipv4Addr::new(10, 0, 0, v.u8()))
}

fn gcode<T>(r: Result<T, super::Error>) -> Val {
    Val::L(vec![Val::n(match r {
        Ok(_) => 0u8,
        Err(super::Error::Table(TableError::InvalidArgument(_))) => 1,
        Err(super::Error::Table(TableError::StillInUse(_))) => 2,
        Err(super::Error::Table(TableError::NotFound)) => 3,
        Err(super::Error::Table(TableError::AlreadyExists(_))) => 4,
        Err(super::Error::InvalidArgument(_)) => 1,
        Err(_) => 5,
    })])
}

fn api_assignment(name: String, dir: &Val, default: &Val, pols: &Val) -> crate::api::PolicyAssignment {
    crate::api::PolicyAssignment {
        name,
        direction: if dir.int() == 0 {
            crate::api::PolicyDirection::Import as i32
        } else {
            crate::api::PolicyDirection::Export as i32
        },
        policies: names_of(pols)
            .into_iter()
            .map(|n| crate::api::Policy { name: n, statements: Vec::new() })
            .collect(),
        default_action: if default.int() == 1 {
            crate::api::RouteAction::Accept as i32
        } else {
            crate::api::RouteAction::Reject as i32
        },
    }
}

fn peer_params(remote_addr: IpAddr) -> PeerParams {
    PeerParams {
        remote_addr,
        remote_port: Global::BGP_PORT,
        expected_remote_asn: 0,
        local_asn: 0,
        passive: true,
        rs_client: false,
        route_reflector: super::RouteReflectorConfig::default(),
        delete_on_disconnected: false,
        admin_down: false,
        state: super::SessionState::Idle,
        holdtime: PeerParams::DEFAULT_HOLD_TIME,
        connect_retry_time: PeerParams::DEFAULT_CONNECT_RETRY_TIME,
        multihop_ttl: None,
        ttl_security: None,
        password: None,
        families: super::FnvHashMap::default(),
        send_max: super::FnvHashMap::default(),
        prefix_limits: super::FnvHashMap::default(),
        graceful_restart: None,
        llgr: None,
        bfd_config: None,
        neighbor_interface: None,
        bind_interface: None,
        export_policy: None,
    }
}

fn asg_val(t: &PolicyTable, a: Option<Arc<PolicyAssignment>>) -> Val {
    let pols: Vec<&Policy> = t.iter_policies(String::new()).collect();
    Val::opt(a.map(|a| {
        Val::L(vec![
            disp_val(a.disposition),
            Val::L(
                a.policies
                    .iter()
                    .map(|p| {
                        Val::L(vec![
                            name_id(&p.name),
                            Val::b(pols.iter().any(|x| std::ptr::eq(*x, Arc::as_ptr(p)))),
                        ])
                    })
                    .collect(),
            ),
            Val::b(a.needs_rpki),
        ])
    }))
}

fn grun_op(g: &mut Global, tables: &Arc<TableManager>, op: &Val) -> Val {
    let l = op.list();
    match l[0].int() {
        // defined sets and statements: grpc.rs calls the table directly
        1..=4 => run_op(&mut g.ptable, &mut None, op),
        5 => gcode(g.add_policy(&name_of(&l[1]), names_of(&l[2]))),
        6 => gcode(g.delete_policy(
            tables.clone(),
            &name_of(&l[1]),
            l[2].bool(),
            l[3].bool(),
            names_of(&l[4]),
        )),
        7 => {
            if l[1].int() == 0 {
                gcode(g.add_policy_assignment(
                    tables.clone(),
                    api_assignment("global".to_string(), &l[2], &l[3], &l[4]),
                ))
            } else {
                // grpc.rs set_policy_assignment
                let dir = dir_of(&l[2]);
                match g.ptable.set_policy_assignment("global", dir, disp_of(&l[3]), names_of(&l[4])) {
                    Ok(updated) => {
                        if dir == PolicyDirection::Import {
                            tables.import_policy.store(Some(updated));
                        } else {
                            tables.export_policy.store(Some(updated));
                        }
                        Val::L(vec![Val::n(0u8)])
                    }
                    Err(e) => code_of::<()>(Err(e)),
                }
            }
        }
        8 => gcode(g.delete_policy_assignment(
            tables.clone(),
            "global".to_string(),
            dir_of(&l[1]),
            names_of(&l[2]),
            l[3].bool(),
        )),
        20 => {
            let mut p = peer_params(peer_addr(&l[1]));
            p.export_policy = l[2].list().first().map(|e| (disp_of(e.at(0)), names_of(e.at(1))));
            gcode(g.add_peer(p, None))
        }
        21 => gcode(g.add_policy_assignment(
            tables.clone(),
            api_assignment(peer_addr(&l[1]).to_string(), &l[2], &l[3], &l[4]),
        )),
        22 => gcode(g.delete_policy_assignment(
            tables.clone(),
            peer_addr(&l[1]).to_string(),
            dir_of(&l[2]),
            names_of(&l[3]),
            l[4].bool(),
        )),
        23 => {
            // the export policy the peer's session uses: its override, else the global slot
            let a = g
                .peers
                .get(&peer_addr(&l[1]))
                .and_then(|p| p.state.export_policy.load_full())
                .or_else(|| tables.export_policy.load_full());
            // the gate of PeerSession::handle_prefix_update: the RPKI table is handed to
            // evaluation only when the assignment's cached needs_rpki flag is set
            let rpki = a.as_deref().filter(|p| p.needs_rpki).map(|_| tables.rpki.read().unwrap());
            let mut f = vec![Val::n(9u8), Val::n(1u8)];
            f.extend_from_slice(&l[2..]);
            eval_with(a.as_deref(), rpki.as_deref(), &f)
        }
        25 => {
            // install VRPs into the TableManager's RPKI table (what the RTR client does)
            let src = Arc::new(IpAddr::V4(Ipv4Addr::new(192, 0, 2, 1)));
            tables.rpki_insert(
                l[1].list()
                    .iter()
                    .map(|e| {
                        (
                            rustybgp_packet::IpNet::new(ip_of(e.at(0)), e.at(1).u8()),
                            Arc::new(Roa::new(e.at(2).u8(), e.at(3).u32(), src.clone())),
                        )
                    })
                    .collect(),
            );
            Val::L(vec![Val::n(0u8)])
        }
        26 => {
            // import evaluation through the real gated path: TableManager::apply_import with the stored slot
            let policy = tables.import_policy.load_full();
            let source = source_of(&l[1]);
            let net = nlri_of(&l[2]);
            let attrs: Arc<Vec<Attribute>> = Arc::new(l[3].list().iter().filter_map(attr_of).collect());
            let mut nexthop = nh_of(&l[4]);
            let (filtered, out) = tables.apply_import(policy.as_deref(), &source, &net, &attrs, &mut nexthop);
            Val::L(vec![
                Val::b(filtered),
                Val::L(out.iter().map(attr_val).collect()),
                nh_val(&nexthop),
            ])
        }
        27 => {
            let r = tables.rpki.read().unwrap();
            probe(Some(&r), &[Val::n(12u8), l[1].clone(), l[2].clone()])
        }
        24 => {
            let mut peers: Vec<(u8, Val)> = g
                .peers
                .iter()
                .map(|(addr, p)| {
                    let id = match addr {
                        IpAddr::V4(a) => a.octets()[3],
                        _ => 0,
                    };
                    (id, asg_val(&g.ptable, p.state.export_policy.load_full()))
                })
                .collect();
            peers.sort_by_key(|x| x.0);
            // the slots the sessions read must be the table's own assignments
            let same = |slot: Option<Arc<PolicyAssignment>>, d: i32| -> Val {
                let t = g.ptable.iter_assignments(d).next().map(|(_, a)| a as *const PolicyAssignment);
                Val::b(slot.map(|a| Arc::as_ptr(&a)) == t)
            };
            Val::L(vec![
                dump(&g.ptable),
                Val::L(peers.into_iter().map(|(i, v)| Val::L(vec![Val::n(i), v])).collect()),
                same(tables.import_policy.load_full(), 1),
                same(tables.export_policy.load_full(), 2),
            ])
        }
        x => panic!("verif: bad global op {}", x),
    }
}

fn grun_case(case: &Val) -> Val {
    let (tx, _rx) = super::mpsc::unbounded_channel();
    let (bfd_tx, _bfd_rx) = super::mpsc::unbounded_channel();
    let mut g = Global::new(tx, bfd_tx);
    g.asn = 65000;
    g.router_id = Ipv4Addr::new(1, 0, 0, 1);
    let tables = Arc::new(TableManager::new(1));
    let mut out = Vec::new();
    for op in case.list() {
        match catch_unwind(AssertUnwindSafe(|| grun_op(&mut g, &tables, op))) {
            Ok(v) => out.push(v),
            Err(_) => {
                out.push(Val::L(vec![Val::I(-1)]));
                break;
            }
        }
    }
    Val::L(out)
}

#[test]
fn verif_policy_cases() {
    super::val::run_cases(grun_case);
}
