// Correspondence harness for daemon/src/event/mod.rs (properties C08, C16).
// Included as the body of `event::verif_hx` under cfg(all(test, osrg_rustybgp_verif)).
//
// C08: drives the real PeerSession::{apply_outputs, run_select, rx_msg,
// flush_tx} and ConnArbiter::process of one connection task over a loopback
// socket.  Real time does not pass during a case (a case takes milliseconds);
// virtual time is advanced by moving the stored tokio sleeps' deadlines back,
// which is all the driver can see of time.  The prologue of session_loop
// (Connected through the arbiter, apply_outputs, result dropped) is repeated
// here because session_loop itself never returns control.
use super::*;
use std::net::Ipv4Addr;

#[allow(dead_code)]
mod val {
    include!(concat!(env!("VERIF_HX_DIR"), "/common/val.rs"));
}
#[allow(dead_code)]
mod caps {
    include!(concat!(env!("VERIF_HX_DIR"), "/common/caps.rs"));
}
use caps::*;
use val::Val;

use crate::fsm::{Input, Role, SessionDownReason};
use futures::stream::FusedStream;
use std::pin::Pin;
use tokio::io::AsyncWriteExt;

fn rt() -> &'static tokio::runtime::Runtime {
    static RT: std::sync::OnceLock<tokio::runtime::Runtime> = std::sync::OnceLock::new();
    RT.get_or_init(|| {
        tokio::runtime::Builder::new_current_thread()
            .enable_all()
            .build()
            .unwrap()
    })
}

fn hx_global(asn: u32, rid: u32) -> GlobalHandle {
    let (tx, _rx) = mpsc::unbounded_channel();
    let (bfd_tx, _bfd_rx) = mpsc::unbounded_channel();
    let mut g = Global::new(tx, bfd_tx);
    g.asn = asn;
    g.router_id = Ipv4Addr::from(rid);
    Arc::new(tokio::sync::RwLock::new(g))
}

fn hx_context(fsm: crate::fsm::PeerFsm) -> Arc<std::sync::Mutex<PeerContext>> {
    let conn_arbiter = Arc::new(std::sync::Mutex::new(ConnArbiter::new(fsm)));
    Arc::new(std::sync::Mutex::new(PeerContext {
        conn_arbiter,
        active_connect_cancel_tx: None,
        active_connect_join_handle: None,
        gr_state: crate::gr::GrState::new(),
        gr_restart_timer: None,
        llgr_family_timers: FnvHashMap::default(),
        rtc_state: crate::rtc::RtcState::new(),
        rtc_eor_timer: None,
    }))
}

async fn hx_loopback() -> (TcpStream, TcpStream) {
    let listener = tokio::net::TcpListener::bind("127.0.0.1:0").await.unwrap();
    let addr = listener.local_addr().unwrap();
    let (client, server) = tokio::join!(TcpStream::connect(addr), listener.accept());
    (client.unwrap(), server.unwrap().0)
}

fn msg_of(v: &Val) -> bgp::Message {
    let l = v.list();
    match l[0].int() {
        1 => bgp::Message::Open(bgp::Open {
            as_number: l[1].u32(),
            router_id: l[2].u32(),
            holdtime: HoldTime::new(l[3].u16()).expect("generator sends 0 or >=3"),
            capability: caps_of(&l[4]),
        }),
        2 => bgp::Message::Update(bgp::Update::EndOfRib(Family::IPV4)),
        3 => bgp::Message::Notification(rustybgp_packet::Notification::from_notification(
            l[1].u8(),
            l[2].u8(),
            Vec::new(),
        )),
        4 => bgp::Message::Keepalive,
        5 => bgp::Message::RouteRefresh { family: fam_of(&l[1]) },
        t => panic!("verif: bad message tag {}", t),
    }
}

fn input_of(v: &Val) -> Input {
    let l = v.list();
    match l[0].int() {
        0 => Input::Connected(l[1].bool()),
        1 => Input::MessageReceived(msg_of(&l[1])),
        2 => Input::KeepaliveTimerExpired,
        3 => Input::HoldTimerExpired,
        4 => Input::Disconnected,
        5 => Input::AdminShutdown,
        6 => Input::UpdateSent,
        t => panic!("verif: bad input tag {}", t),
    }
}

fn notif_pair(m: &bgp::Message) -> Val {
    match m {
        bgp::Message::Notification(n) => {
            Val::L(vec![Val::n(n.notification_code()), Val::n(n.notification_subcode())])
        }
        _ => Val::L(vec![Val::I(-2)]),
    }
}

fn reason_val(r: &SessionDownReason) -> Val {
    match r {
        SessionDownReason::HoldTimerExpired => Val::L(vec![Val::n(0u8)]),
        SessionDownReason::RemoteNotification(m) => {
            let p = notif_pair(m);
            Val::L(vec![Val::n(1u8), p.at(0).clone(), p.at(1).clone()])
        }
        SessionDownReason::LocalNotification(m) => {
            let p = notif_pair(m);
            Val::L(vec![Val::n(2u8), p.at(0).clone(), p.at(1).clone()])
        }
        SessionDownReason::FsmError => Val::L(vec![Val::n(3u8)]),
        SessionDownReason::AdminShutdown => Val::L(vec![Val::n(4u8)]),
        SessionDownReason::IoError => Val::L(vec![Val::n(5u8)]),
    }
}

fn step_val(s: &Step) -> Val {
    match s {
        Step::Continue => Val::L(vec![]),
        Step::Terminate { reason, notification } => Val::L(vec![
            reason_val(reason),
            Val::opt(notification.as_ref().map(notif_pair)),
        ]),
    }
}

const NEVER_SECS: f64 = 1.0e8;

fn slot_deadline(f: &FuturesUnordered<tokio::time::Sleep>) -> Option<tokio::time::Instant> {
    Pin::new(f).iter_pin_ref().next().map(|s| s.deadline())
}

// seconds from now to the deadline (negative when overdue)
fn rel_secs(d: tokio::time::Instant) -> f64 {
    let now = tokio::time::Instant::now();
    if d >= now {
        (d - now).as_secs_f64()
    } else {
        -((now - d).as_secs_f64())
    }
}

fn slot_val(f: &FuturesUnordered<tokio::time::Sleep>) -> Val {
    match slot_deadline(f) {
        None => {
            if f.is_terminated() {
                Val::L(vec![Val::n(4u8)])
            } else {
                Val::L(vec![Val::n(3u8)])
            }
        }
        Some(d) => {
            let r = rel_secs(d);
            if r > NEVER_SECS {
                Val::L(vec![Val::n(0u8)])
            } else if r > -0.5 {
                Val::L(vec![Val::n(1u8), Val::I(r.round() as i128)])
            } else {
                Val::L(vec![Val::n(2u8)])
            }
        }
    }
}

// virtual time passes: every finite deadline moves dt seconds towards the past
fn shift_slot(f: &mut FuturesUnordered<tokio::time::Sleep>, dt: u64) {
    if let Some(d) = slot_deadline(f) {
        if rel_secs(d) > NEVER_SECS {
            return;
        }
        let nd = d
            .checked_sub(Duration::from_secs(dt))
            .unwrap_or_else(|| tokio::time::Instant::now() - Duration::from_secs(1));
        *f = vec![tokio::time::sleep_until(nd)].into_iter().collect();
    }
}

// UPDATE announcing 10.1.2.0/24 with AS_PATH [asn], in the wire form the
// session's negotiated codec expects
fn loop_update_bytes(codec: &bgp::PeerCodec, asn: u32) -> Vec<u8> {
    let mut attrs: Vec<u8> = vec![0x40, 1, 1, 0];
    if codec.two_byte_as {
        attrs.extend_from_slice(&[0x40, 2, 4, 2, 1]);
        attrs.extend_from_slice(&(asn as u16).to_be_bytes());
    } else {
        attrs.extend_from_slice(&[0x40, 2, 6, 2, 1]);
        attrs.extend_from_slice(&asn.to_be_bytes());
    }
    attrs.extend_from_slice(&[0x40, 3, 4, 10, 0, 0, 1]);
    let mut nlri: Vec<u8> = Vec::new();
    if codec.family_state(Family::IPV4).is_some_and(|s| s.addpath_rx) {
        nlri.extend_from_slice(&[0, 0, 0, 1]);
    }
    nlri.extend_from_slice(&[24, 10, 1, 2]);
    let len = 19 + 2 + 2 + attrs.len() + nlri.len();
    let mut b = vec![0xffu8; 16];
    b.extend_from_slice(&(len as u16).to_be_bytes());
    b.push(2);
    b.extend_from_slice(&[0, 0]);
    b.extend_from_slice(&(attrs.len() as u16).to_be_bytes());
    b.extend_from_slice(&attrs);
    b.extend_from_slice(&nlri);
    b
}

struct Hx {
    session: PeerSession,
    global: GlobalHandle,
    server: TcpStream,
    client: Option<TcpStream>,
    rxbuf: bytes::BytesMut,
    close_rx: CloseRxFuture,
    local_sa: SocketAddr,
    remote_sa: SocketAddr,
    live: bool,
    lasn: u32,
    written: u64,
    fin: bool,
    peer_codec: Option<bgp::PeerCodec>,
    closed_client: Option<TcpStream>,
    outbuf: Vec<u8>,
}

impl Hx {
    fn obs(&self, step: &Step) -> Val {
        let arb = self.session.conn_arbiter.lock().unwrap();
        Val::L(vec![
            slot_val(&self.session.holdtime_futures),
            slot_val(&self.session.keepalive_futures),
            step_val(step),
            Val::b(self.live),
            Val::n(u8::from(arb.state(Role::Active))),
            Val::n(u8::from(arb.state(Role::Passive))),
        ])
    }

    fn unread_bytes(&self) -> usize {
        use std::os::fd::AsRawFd;
        let mut n: libc::c_int = 0;
        unsafe {
            libc::ioctl(self.server.as_raw_fd(), libc::FIONREAD, &mut n);
        }
        n as usize
    }

    async fn flush_client(&mut self) {
        if self.outbuf.is_empty() {
            return;
        }
        let before = self.unread_bytes();
        let bytes = std::mem::take(&mut self.outbuf);
        if let Some(c) = self.client.as_mut() {
            c.write_all(&bytes).await.expect("client write");
            for _ in 0..20000 {
                if self.unread_bytes() >= before + bytes.len() {
                    break;
                }
                tokio::time::sleep(Duration::from_micros(100)).await;
            }
        }
    }

    async fn select_once(&mut self) -> Step {
        self.flush_client().await;
        let seen = self.session.counter_rx.total.load(Ordering::Relaxed);
        if self.written > seen || self.fin {
            // make sure the socket's read readiness is known to tokio before the single poll
            let _ = tokio::time::timeout(Duration::from_secs(2), self.server.readable()).await;
        }
        // the peer-event arm of run_select (route changes from the table) is not modelled
        self.session.peer_event_rx = None;
        let near = |f: &FuturesUnordered<tokio::time::Sleep>| {
            slot_deadline(f).is_some_and(|d| rel_secs(d).abs() < 0.05)
        };
        let near_now = near(&self.session.holdtime_futures) || near(&self.session.keepalive_futures);
        if near_now {
            // tokio rounds a deadline up to its next millisecond tick: a sleep
            // of 0 s completes a millisecond or two after it was created, and
            // until then the writable socket arm may win the biased select
            tokio::time::sleep(Duration::from_millis(3)).await;
        }
        let fut = self.session.run_select(
            &self.global,
            &mut self.server,
            &mut self.rxbuf,
            self.remote_sa,
            self.local_sa,
            &mut self.close_rx,
        );
        tokio::pin!(fut);
        for _ in 0..6 {
            if let std::task::Poll::Ready(s) = futures::poll!(fut.as_mut()) {
                return s;
            }
            tokio::task::yield_now().await;
        }
        Step::Continue
    }
}

// case = [lid, lasn, lcaps, lhold, expected, role, restarting, events]
async fn run_timer_case(case: &Val) -> (Val, f64) {
    let t_start = std::time::Instant::now();
    let l = case.list();
    let (lid, lasn) = (l[0].u32(), l[1].u32());
    let lcap = caps_of(&l[2]);
    let role = if l[5].int() == 0 { Role::Active } else { Role::Passive };
    let restarting = l[6].bool();
    let fsm = crate::fsm::PeerFsm::new(lid, lasn, lcap.clone(), l[3].u64(), l[4].u32(), FnvHashMap::default());
    let context = hx_context(fsm);
    let tables: TableHandle = Arc::new(TableManager::new(1));
    let (client, server) = hx_loopback().await;
    let remote_sa = server.peer_addr().unwrap();
    let local_sa = server.local_addr().unwrap();
    let mut session = PeerSession::new_for_test(remote_sa.ip(), context.clone(), tables);
    // new_for_test installs its own arbiter; put the case's FSM back
    let arbiter = Arc::new(std::sync::Mutex::new(ConnArbiter::new(crate::fsm::PeerFsm::new(
        lid,
        lasn,
        lcap.clone(),
        l[3].u64(),
        l[4].u32(),
        FnvHashMap::default(),
    ))));
    context.lock().unwrap().conn_arbiter = Arc::clone(&arbiter);
    session.conn_arbiter = Arc::clone(&arbiter);
    session.role = role;
    session.local_cap = lcap;
    session.is_restarting = restarting;
    session.export_ctx.local_asn = lasn;
    session.local_router_id = Ipv4Addr::from(lid);
    // accept_connection: the arbiter keeps this connection's close sender
    let (close_tx, close_rx) = tokio::sync::oneshot::channel::<CloseReason>();
    match role {
        Role::Active => arbiter.lock().unwrap().active_close_tx = Some(close_tx),
        Role::Passive => arbiter.lock().unwrap().passive_close_tx = Some(close_tx),
    }
    let close_rx: CloseRxFuture = Some(close_rx.fuse()).into();
    let _ = tokio::time::timeout(Duration::from_secs(2), server.writable()).await;
    let mut hx = Hx {
        session,
        global: hx_global(lasn, lid),
        server,
        client: Some(client),
        rxbuf: bytes::BytesMut::with_capacity(PeerSession::RXBUF_SIZE),
        close_rx,
        local_sa,
        remote_sa,
        live: true,
        lasn,
        written: 0,
        fin: false,
        peer_codec: None,
        closed_client: None,
        outbuf: Vec::new(),
    };
    let mut out = Vec::new();
    // session_loop prologue
    {
        let outputs = hx
            .session
            .conn_arbiter
            .lock()
            .unwrap()
            .process(hx.session.role, Input::Connected(hx.session.is_restarting));
        let (_, effects) = hx.session.apply_outputs(outputs, local_sa, remote_sa).await;
        let g = hx.global.clone();
        hx.session.process_effects(effects, &g).await;
    }
    // the hold time advertised by the OPEN the prologue queued
    let adv = hx
        .session
        .ctrl_msgs
        .iter()
        .find_map(|m| if let bgp::Message::Open(o) = m { Some(o.holdtime.seconds()) } else { None });
    out.push(Val::L(vec![Val::opt(adv.map(Val::n)).list().first().cloned().unwrap_or(Val::I(-3))]));
    out.push(hx.obs(&Step::Continue));
    for e in l[7].list() {
        let el = e.list();
        let mut step = Step::Continue;
        if hx.live {
            match el[0].int() {
                0 => {
                    let dt = el[1].u64();
                    shift_slot(&mut hx.session.holdtime_futures, dt);
                    shift_slot(&mut hx.session.keepalive_futures, dt);
                }
                1 => {
                    let mut bytes: Vec<u8> = Vec::new();
                    let mut enc = bgp::PeerCodec::new();
                    for it in el[1].list() {
                        if hx.client.is_some() {
                            hx.written += 1;
                        }
                        if it.at(0).int() == 0 {
                            let m = msg_of(it.at(1));
                            if let (bgp::Message::Open(o), None) = (&m, &hx.peer_codec) {
                                // the codec the session will parse later messages with
                                hx.peer_codec =
                                    Some(bgp::PeerCodec::negotiate(&hx.session.local_cap, &o.capability));
                            }
                            let mut b = bytes::BytesMut::new();
                            enc.encode_to(&m, &mut b).expect("encode");
                            bytes.extend_from_slice(&b);
                        } else if it.at(0).int() == 1 {
                            let dflt = bgp::PeerCodec::new();
                            let codec = hx.peer_codec.as_ref().unwrap_or(&dflt);
                            bytes.extend_from_slice(&loop_update_bytes(codec, hx.lasn));
                        } else {
                            // a message the codec rejects: [2, 2, 6, h] an OPEN with hold time h (1 or 2),
                            // [2, 1, 3, _] a header with an unknown message type
                            if it.at(1).int() == 2 {
                                let m = bgp::Message::Open(bgp::Open {
                                    as_number: 65001,
                                    router_id: 100,
                                    holdtime: HoldTime::new(3).unwrap(),
                                    capability: Vec::new(),
                                });
                                let mut b = bytes::BytesMut::new();
                                enc.encode_to(&m, &mut b).expect("encode");
                                let mut v = b.to_vec();
                                v[22] = 0;
                                v[23] = it.at(3).u8();
                                bytes.extend_from_slice(&v);
                            } else {
                                let mut v = vec![0xffu8; 16];
                                v.extend_from_slice(&[0, 19, 9]);
                                bytes.extend_from_slice(&v);
                            }
                        }
                    }
                    // arrival only matters at the next select: the bytes are put on the
                    // wire there, in one write, so that one read finds them all
                    if hx.client.is_some() {
                        hx.outbuf.extend_from_slice(&bytes);
                    }
                }
                2 => {
                    // half-close: the FIN is sent, the socket stays open so that the
                    // session's own writes do not run into a reset
                    hx.flush_client().await;
                    if let Some(mut c) = hx.client.take() {
                        let _ = c.shutdown().await;
                        hx.closed_client = Some(c);
                        hx.fin = true;
                    }
                }
                3 => {
                    let cr = match el[1].at(0).int() {
                        0 => CloseReason::AdminShutdown,
                        1 => CloseReason::SendMessage(bgp::Message::Notification(
                            rustybgp_packet::Notification::from_notification(
                                el[1].at(1).u8(),
                                el[1].at(2).u8(),
                                Vec::new(),
                            ),
                        )),
                        _ => CloseReason::Silent,
                    };
                    let tx = {
                        let mut arb = hx.session.conn_arbiter.lock().unwrap();
                        match role {
                            Role::Active => arb.active_close_tx.take(),
                            Role::Passive => arb.passive_close_tx.take(),
                        }
                    };
                    if let Some(tx) = tx {
                        let _ = tx.send(cr);
                    }
                }
                4 => {
                    hx.session
                        .pending
                        .entry(Family::IPV4)
                        .or_insert_with(|| crate::peer_tx::PendingTx::new(false))
                        .buffer_messages(vec![bgp::Message::eor(Family::IPV4)]);
                }
                5 => {
                    step = hx.select_once().await;
                    // the model's "something is pending" is exactly what the harness put there
                    if matches!(step, Step::Terminate { .. }) {
                        hx.live = false;
                    }
                }
                6 => {
                    let other = if role == Role::Active { Role::Passive } else { Role::Active };
                    let _ = hx.session.conn_arbiter.lock().unwrap().process(other, input_of(&el[1]));
                }
                t => panic!("verif: bad event tag {}", t),
            }
        }
        out.push(hx.obs(&step));
    }
    (Val::L(out), t_start.elapsed().as_secs_f64())
}

fn run_timer_case_sync(case: &Val) -> Val {
    // a case must take well under half a second of real time for the
    // rounding of deadlines to whole seconds to be exact; retry when the
    // machine stalled
    let mut last = Val::L(vec![]);
    for _ in 0..4 {
        let (v, secs) = rt().block_on(run_timer_case(case));
        last = v;
        if secs < 0.25 {
            break;
        }
    }
    last
}

#[test]
fn verif_timer_cases() {
    val::run_cases(run_timer_case_sync);
}

// ---------------------------------------------------------------- C16
// case = [local caps, remote caps, send_max, families]:
// negotiate_gr / negotiate_llgr of a session in both directions, and for each
// family the driver's effective send-max (from the FSM's SessionEstablished)
// next to the codec's addpath_tx.
fn gr_val(g: &Option<NegotiatedGr>) -> Val {
    match g {
        Some(g) => Val::L(vec![
            Val::L(g.families.iter().map(fam_val).collect()),
            Val::n(g.restart_time.as_secs()),
            Val::b(g.notification_enabled),
        ]),
        None => Val::L(vec![]),
    }
}

fn llgr_val(g: &Option<NegotiatedLlgr>) -> Val {
    match g {
        Some(g) => Val::L(vec![Val::L(
            g.families
                .iter()
                .map(|(f, d)| Val::L(vec![fam_val(f), Val::n(d.as_secs())]))
                .collect(),
        )]),
        None => Val::L(vec![]),
    }
}

fn session_with_caps(local: &[bgp::Capability]) -> PeerSession {
    let fsm = crate::fsm::PeerFsm::new(1, 65000, local.to_vec(), 90, 0, FnvHashMap::default());
    let context = hx_context(fsm);
    let tables: TableHandle = Arc::new(TableManager::new(1));
    let mut s = PeerSession::new_for_test("127.0.0.9".parse().unwrap(), context, tables);
    s.local_cap = local.to_vec();
    s
}

fn emax_val(lc: &[bgp::Capability], rc: &[bgp::Capability], smax: &Val, fams: &Val) -> Val {
    let mut sm: FnvHashMap<Family, usize> = FnvHashMap::default();
    for p in smax.list() {
        sm.insert(fam_of(p.at(0)), p.at(1).usize());
    }
    let mut fsm = crate::fsm::PeerFsm::new(200, 65000, lc.to_vec(), 90, 0, sm);
    let open = bgp::Message::Open(bgp::Open {
        as_number: 65001,
        router_id: 100,
        holdtime: HoldTime::new(30).unwrap(),
        capability: rc.to_vec(),
    });
    fsm.process(Role::Active, Input::Connected(false));
    fsm.process(Role::Active, Input::MessageReceived(open));
    let outs = fsm.process(Role::Active, Input::MessageReceived(bgp::Message::Keepalive));
    let mut em: FnvHashMap<Family, usize> = FnvHashMap::default();
    for o in outs {
        if let crate::fsm::PeerFsmOutput::Connection(
            _,
            crate::fsm::Output::SessionEstablished { effective_max, .. },
        ) = o
        {
            em = effective_max;
        }
    }
    // PeerSession::effective_max(family)
    let mut s = session_with_caps(lc);
    s.effective_max = em;
    let codec = bgp::PeerCodec::negotiate(lc, rc);
    Val::L(
        fams.list()
            .iter()
            .map(|fv| {
                let f = fam_of(fv);
                Val::L(vec![
                    fam_val(&f),
                    Val::us(s.effective_max(f)),
                    Val::b(codec.family_state(f).is_some_and(|st| st.addpath_tx)),
                ])
            })
            .collect(),
    )
}

fn run_neg_case(case: &Val) -> Val {
    let _g = rt().enter();
    let l = case.list();
    let lc = caps_of(&l[0]);
    let rc = caps_of(&l[1]);
    let a = session_with_caps(&lc);
    let b = session_with_caps(&rc);
    Val::L(vec![
        gr_val(&a.negotiate_gr(&rc)),
        llgr_val(&a.negotiate_llgr(&rc)),
        gr_val(&b.negotiate_gr(&lc)),
        llgr_val(&b.negotiate_llgr(&lc)),
        emax_val(&lc, &rc, &l[2], &l[3]),
    ])
}

#[test]
fn verif_neg_cases() {
    val::run_cases(run_neg_case);
}

// C10 / C11 glue harness (unit u4)
mod gr_glue { include!(concat!(env!("VERIF_HX_DIR"), "/daemon/event_gr_hx.rs")); }

// C15, prefix-limit counters of a live session across graceful restart (unit u8)
mod c15_glue { include!(concat!(env!("VERIF_HX_DIR"), "/daemon/event_c15_hx.rs")); }

// C01 session-level harness (unit u13)
mod c01 { include!(concat!(env!("VERIF_HX_DIR"), "/daemon/event_c01_hx.rs")); }

// C16, admission decision (accept_connection and friends)
mod accept_hx {
    include!(concat!(env!("VERIF_HX_DIR"), "/daemon/event_accept_hx.rs"));
}

// C14 per-peer policy assignments (unit u6)
#[allow(dead_code)]
mod c14 { include!(concat!(env!("VERIF_HX_DIR"), "/daemon/event_policy_hx.rs")); }

// C16, an OPEN from the wire through codec, FSM and negotiation
mod open_hx {
    include!(concat!(env!("VERIF_HX_DIR"), "/daemon/event_open_hx.rs"));
}
