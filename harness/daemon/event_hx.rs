// body of `mod verif_hx` in daemon/src/event/mod.rs
mod c01 { include!(concat!(env!("VERIF_HX_DIR"), "/daemon/event_c01_hx.rs")); }
