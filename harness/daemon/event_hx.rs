// Correspondence harness for daemon/src/event/mod.rs.
// Included as the body of `event::verif_hx` under cfg(all(test, osrg_rustybgp_verif)).
mod gr_glue { include!(concat!(env!("VERIF_HX_DIR"), "/daemon/event_gr_hx.rs")); }
