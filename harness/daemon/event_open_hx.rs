// C16: an OPEN as it arrives on the wire, through the real codec
// (PeerCodec::try_parse + validate_message), the real PeerFsm (expected AS,
// hold time) and the real negotiation (PeerCodec::negotiate, negotiate_gr,
// negotiate_llgr).  Included as `event::verif_hx::open_hx`.
use super::*;

fn neg_half(l: &[bgp::Capability], r: &[bgp::Capability], fams: &Val) -> Vec<Val> {
    let c = bgp::PeerCodec::negotiate(l, r);
    let fs = fams
        .list()
        .iter()
        .map(|fv| {
            let f = fam_of(fv);
            match c.family_state(f) {
                Some(s) => Val::L(vec![fam_val(&f), Val::n(1u8), Val::b(s.addpath_rx), Val::b(s.addpath_tx)]),
                None => Val::L(vec![fam_val(&f), Val::n(0u8), Val::n(0u8), Val::n(0u8)]),
            }
        })
        .collect();
    vec![Val::L(fs), Val::b(c.extended_length), Val::b(c.two_byte_as)]
}

// case = [local id, local caps, local hold, expected AS, frame octets, families]
fn run_open_case(case: &Val) -> Val {
    let _g = rt().enter();
    let l = case.list();
    let lid = l[0].u32();
    let lc = caps_of(&l[1]);
    let mut buf = bytes::BytesMut::from(&l[4].bytes()[..]);
    let mut codec = bgp::PeerCodec::new();
    let parsed = match codec.try_parse(&mut buf) {
        Err(e) => {
            return Val::L(vec![Val::n(0u8), Val::n(e.notification_code()), Val::n(e.notification_subcode())]);
        }
        Ok(None) => return Val::L(vec![Val::n(2u8)]),
        Ok(Some(p)) => p,
    };
    let msgs: Vec<bgp::Message> = match bgp::validate_message(parsed, true) {
        Err(e) => {
            return Val::L(vec![Val::n(0u8), Val::n(e.notification_code()), Val::n(e.notification_subcode())]);
        }
        Ok(it) => it.collect(),
    };
    let open = match msgs.into_iter().next() {
        Some(bgp::Message::Open(o)) => o,
        _ => return Val::L(vec![Val::n(3u8)]),
    };
    let rc = open.capability.clone();
    let head = vec![
        Val::n(1u8),
        Val::n(open.as_number),
        Val::n(open.holdtime.seconds()),
        Val::n(open.router_id),
        caps_val(&rc),
    ];
    let mut fsm = crate::fsm::PeerFsm::new(lid, 65000, lc.clone(), l[2].u64(), l[3].u32(), FnvHashMap::default());
    fsm.process(Role::Active, Input::Connected(false));
    let outs = fsm.process(Role::Active, Input::MessageReceived(bgp::Message::Open(open)));
    let mut ov = Vec::new();
    for o in &outs {
        if let crate::fsm::PeerFsmOutput::Connection(r, out) = o {
            let rv = Val::n(if *r == Role::Active { 0u8 } else { 1u8 });
            match out {
                crate::fsm::Output::SetKeepaliveTimer(n) => {
                    ov.push(Val::L(vec![Val::n(0u8), rv, Val::L(vec![Val::n(1u8), Val::n(*n)])]))
                }
                crate::fsm::Output::SetHoldTimer(n) => {
                    ov.push(Val::L(vec![Val::n(0u8), rv, Val::L(vec![Val::n(2u8), Val::n(*n)])]))
                }
                crate::fsm::Output::SessionDown(reason, n) => ov.push(Val::L(vec![
                    Val::n(0u8),
                    rv,
                    Val::L(vec![Val::n(5u8), reason_val(reason), Val::opt(n.as_ref().map(notif_pair))]),
                ])),
                _ => {}
            }
        }
    }
    let mut v = head;
    v.push(Val::n(u8::from(fsm.state(Role::Active))));
    v.push(Val::L(ov));
    let mut neg = neg_half(&lc, &rc, &l[5]);
    neg.extend(neg_half(&rc, &lc, &l[5]));
    v.push(Val::L(neg));
    let a = session_with_caps(&lc);
    let b = session_with_caps(&rc);
    v.push(Val::L(vec![
        gr_val(&a.negotiate_gr(&rc)),
        llgr_val(&a.negotiate_llgr(&rc)),
        gr_val(&b.negotiate_gr(&lc)),
        llgr_val(&b.negotiate_llgr(&lc)),
    ]));
    Val::L(v)
}

#[test]
fn verif_open_cases() {
    val::run_cases(run_open_case);
}
