// Correspondence harness for the daemon-side BMP converters of daemon/src/bmp.rs
// (property C19).  Included as the body of `bmp::verif_hx` under
// cfg(all(test, osrg_rustybgp_verif)).
use super::*;

#[allow(dead_code)]
mod val {
    include!(concat!(env!("VERIF_HX_DIR"), "/common/val.rs"));
}
#[allow(dead_code)]
mod caps {
    include!(concat!(env!("VERIF_HX_DIR"), "/common/caps.rs"));
}
#[allow(dead_code)]
mod mon {
    include!(concat!(env!("VERIF_HX_DIR"), "/common/mon.rs"));
}
use val::Val;

use rustybgp_table as table;
use tokio_util::codec::Encoder;

// [remote_addr, local_addr, remote_asn, local_asn, router_id(4 bytes)]
fn source_of(v: &Val) -> Arc<table::Source> {
    let l = v.list();
    Arc::new(table::Source::new(
        mon::ip_of(&l[0]),
        mon::ip_of(&l[1]),
        l[2].u32(),
        l[3].u32(),
        mon::v4_of(&l[4]),
        table::PeerRole::Ebgp,
    ))
}

// [source, family, addpath, entries, [] | [attrs], nexthop, timestamp]
fn change_of(v: &Val) -> AdjRibInChange {
    let l = v.list();
    AdjRibInChange {
        source: source_of(&l[0]),
        family: mon::fam_of(&l[1]),
        addpath: l[2].bool(),
        nlris: mon::entries_of(&l[3]),
        attrs: l[4].list().first().map(mon::attrs_of),
        nexthop: mon::nexthop_of(&l[5]),
        timestamp: l[6].u32(),
    }
}

fn pph_of(v: &Val) -> bmp::PerPeerHeader {
    let l = v.list();
    bmp::PerPeerHeader::new(
        l[1].u8(),
        l[2].u32(),
        mon::v4_of(&l[3]),
        l[4].u64(),
        mon::ip_of(&l[5]),
        l[6].u32(),
    )
    .with_peer_type(l[0].u8())
}

// what one bmp::Message is: the bytes BmpCodec writes for it, the reference
// encoding of its update, the update the converter built, the add-path flag
fn rm_val(codec: &mut bmp::BmpCodec, m: &bmp::Message) -> Val {
    let mut buf = bytes::BytesMut::new();
    codec.encode(m, &mut buf).expect("verif: bmp encode");
    match m {
        bmp::Message::RouteMonitoring {
            update, addpath, ..
        } => Val::L(vec![
            Val::from_bytes(&buf),
            Val::from_bytes(&mon::ref_encode(update, *addpath)),
            mon::msg_val(update),
            Val::b(*addpath),
        ]),
        _ => Val::L(vec![Val::from_bytes(&buf)]),
    }
}

fn run_case(case: &Val) -> Val {
    let l = case.list();
    let mut codec = bmp::BmpCodec::new();
    match l[0].int() {
        0 => {
            let change = change_of(&l[1]);
            mon::msg_val(&adj_rib_in_to_bmp_update(&change))
        }
        1 => {
            let lrc = LocRibChange {
                family: mon::fam_of(&l[1]),
                net: mon::nlri_of(&l[2]),
                attr: l[3].list().first().map(mon::attrs_of),
                nexthop: mon::nexthop_of(&l[4]),
                timestamp: l[5].u32(),
            };
            let m = loc_rib_to_bmp(&lrc, mon::v4_of(&l[6]), l[7].u32());
            rm_val(&mut codec, &m)
        }
        2 => {
            let mut snapshot = SnapshotMap::default();
            for c in l[1].list() {
                apply_snapshot(&mut snapshot, change_of(c));
            }
            let header = pph_of(&l[3]);
            let msgs = flush_peer_snapshot(&mut snapshot, mon::ip_of(&l[2]), &header, l[4].u8());
            // hash-map order is unspecified: route messages first, then EoRs, each group sorted
            let n_routes = msgs
                .iter()
                .filter(|m| {
                    matches!(
                        m,
                        bmp::Message::RouteMonitoring {
                            update: bgp::Message::Update(bgp::Update::Reach { .. }),
                            ..
                        }
                    )
                })
                .count();
            let eor_after_routes = msgs.iter().skip(n_routes).all(|m| {
                matches!(
                    m,
                    bmp::Message::RouteMonitoring {
                        update: bgp::Message::Update(bgp::Update::EndOfRib(_)),
                        ..
                    }
                )
            });
            let mut vals: Vec<Val> = msgs.iter().map(|m| rm_val(&mut codec, m)).collect();
            vals.sort_by_key(|v| v.to_string());
            let mut left: Vec<Val> = snapshot.keys().map(mon::ip_val).collect();
            left.sort_by_key(|v| v.to_string());
            Val::L(vec![Val::L(vals), Val::b(eor_after_routes), Val::L(left)])
        }
        3 => {
            // [3, router_id, local_asn]: the Peer Up of the Loc-RIB virtual peer (RFC 9069)
            let m = loc_rib_peer_up(mon::v4_of(&l[1]), l[2].u32());
            let mut buf = bytes::BytesMut::new();
            codec.encode(&m, &mut buf).expect("verif: bmp encode");
            match &m {
                bmp::Message::PeerUp {
                    local_addr,
                    local_port,
                    remote_port,
                    local_open,
                    remote_open,
                    ..
                } => Val::L(vec![
                    Val::from_bytes(&buf),
                    Val::L(vec![
                        Val::from_bytes(&mon::ref_encode(local_open, false)),
                        Val::from_bytes(&mon::ref_encode(remote_open, false)),
                    ]),
                    mon::ip_val(local_addr),
                    Val::n(*local_port),
                    Val::n(*remote_port),
                    mon::msg_val(local_open),
                    mon::msg_val(remote_open),
                ]),
                _ => Val::L(vec![Val::I(-9)]),
            }
        }
        4 => {
            // [4, reason, header]: session_down_to_bmp, then the Peer Down the live loop builds
            // reason: [] none | [0] hold timer | [1, notification] remote | [2, notification] local
            //         | [3] fsm error | [4] admin shutdown | [5] io error
            let r = l[1].list();
            let reason = if r.is_empty() {
                None
            } else {
                Some(match r[0].int() {
                    0 => crate::fsm::SessionDownReason::HoldTimerExpired,
                    1 => crate::fsm::SessionDownReason::RemoteNotification(mon::msg_of(&r[1])),
                    2 => crate::fsm::SessionDownReason::LocalNotification(mon::msg_of(&r[1])),
                    3 => crate::fsm::SessionDownReason::FsmError,
                    4 => crate::fsm::SessionDownReason::AdminShutdown,
                    5 => crate::fsm::SessionDownReason::IoError,
                    t => panic!("verif: bad session-down reason {}", t),
                })
            };
            let reason = session_down_to_bmp(reason);
            let (code, blob, fsm) = match &reason {
                bmp::PeerDownReason::LocalNotification(m) => (1, mon::ref_encode(m, false), -1),
                bmp::PeerDownReason::LocalFsm(c) => (2, vec![], *c as i128),
                bmp::PeerDownReason::RemoteNotification(m) => (3, mon::ref_encode(m, false), -1),
                bmp::PeerDownReason::RemoteUnexpected => (4, vec![], -1),
                bmp::PeerDownReason::Deconfigured => (5, vec![], -1),
            };
            let m = bmp::Message::PeerDown {
                header: pph_of(&l[2]),
                reason,
            };
            let mut buf = bytes::BytesMut::new();
            codec.encode(&m, &mut buf).expect("verif: bmp encode");
            Val::L(vec![Val::from_bytes(&buf), Val::from_bytes(&blob), Val::n(code as u8), Val::I(fsm)])
        }
        5 => {
            // [5, [peer_addr, peer_asn, peer_id], family, addpath, entry, [] | [attrs], nexthop, timestamp]
            let p = l[1].list();
            let change = AdjRibOutChange {
                peer_addr: mon::ip_of(&p[0]),
                peer_asn: p[1].u32(),
                peer_id: p[2].u32(),
                family: mon::fam_of(&l[2]),
                addpath: l[3].bool(),
                nlri: mon::entries_of(&Val::L(vec![l[4].clone()])).remove(0),
                attrs: l[5].list().first().map(mon::attrs_of),
                nexthop: mon::nexthop_of(&l[6]),
                timestamp: l[7].u32(),
            };
            mon::msg_val(&adj_rib_out_to_bmp_update(&change))
        }
        t => panic!("verif: bad case tag {}", t),
    }
}

#[test]
fn verif_bmp_cases() {
    val::run_cases(run_case);
}
