// Correspondence harness for the daemon-side BMP converters of daemon/src/bmp.rs
// (property C19).  Included as the body of `bmp::verif_hx` under
// cfg(all(test, osrg_rustybgp_verif)).
use super::*;

#[allow(dead_code)]
mod val {
    include!(concat!(env!("VERIF_HX_DIR"), "/common/val.rs"));
}
#[allow(dead_code)]
mod caps {
    include!(concat!(env!("VERIF_HX_DIR"), "/common/caps.rs"));
}
#[allow(dead_code)]
mod mon {
    include!(concat!(env!("VERIF_HX_DIR"), "/common/mon.rs"));
}
use val::Val;

use rustybgp_table as table;
use tokio_util::codec::Encoder;

// [remote_addr, local_addr, remote_asn, local_asn, router_id(4 bytes)]
fn source_of(v: &Val) -> Arc<table::Source> {
    let l = v.list();
    Arc::new(table::Source::new(
        mon::ip_of(&l[0]),
        mon::ip_of(&l[1]),
        l[2].u32(),
        l[3].u32(),
        mon::v4_of(&l[4]),
        table::PeerRole::Ebgp,
    ))
}

// [source, family, addpath, entries, [] | [attrs], nexthop, timestamp]
fn change_of(v: &Val) -> AdjRibInChange {
    let l = v.list();
    AdjRibInChange {
        source: source_of(&l[0]),
        family: mon::fam_of(&l[1]),
        addpath: l[2].bool(),
        nlris: mon::entries_of(&l[3]),
        attrs: l[4].list().first().map(mon::attrs_of),
        nexthop: mon::nexthop_of(&l[5]),
        timestamp: l[6].u32(),
    }
}

fn pph_of(v: &Val) -> bmp::PerPeerHeader {
    let l = v.list();
    bmp::PerPeerHeader::new(
        l[1].u8(),
        l[2].u32(),
        mon::v4_of(&l[3]),
        l[4].u64(),
        mon::ip_of(&l[5]),
        l[6].u32(),
    )
    .with_peer_type(l[0].u8())
}

// what one bmp::Message is: the bytes BmpCodec writes for it, the reference
// encoding of its update, the update the converter built, the add-path flag
fn rm_val(codec: &mut bmp::BmpCodec, m: &bmp::Message) -> Val {
    let mut buf = bytes::BytesMut::new();
    codec.encode(m, &mut buf).expect("verif: bmp encode");
    match m {
        bmp::Message::RouteMonitoring {
            update, addpath, ..
        } => Val::L(vec![
            Val::from_bytes(&buf),
            Val::from_bytes(&mon::ref_encode(update, *addpath)),
            mon::msg_val(update),
            Val::b(*addpath),
        ]),
        _ => Val::L(vec![Val::from_bytes(&buf)]),
    }
}

fn run_case(case: &Val) -> Val {
    let l = case.list();
    let mut codec = bmp::BmpCodec::new();
    match l[0].int() {
        0 => {
            let change = change_of(&l[1]);
            mon::msg_val(&adj_rib_in_to_bmp_update(&change))
        }
        1 => {
            let lrc = LocRibChange {
                family: mon::fam_of(&l[1]),
                net: mon::nlri_of(&l[2]),
                attr: l[3].list().first().map(mon::attrs_of),
                nexthop: mon::nexthop_of(&l[4]),
                timestamp: l[5].u32(),
            };
            let m = loc_rib_to_bmp(&lrc, mon::v4_of(&l[6]), l[7].u32());
            rm_val(&mut codec, &m)
        }
        2 => {
            let mut snapshot = SnapshotMap::default();
            for c in l[1].list() {
                apply_snapshot(&mut snapshot, change_of(c));
            }
            let header = pph_of(&l[3]);
            let msgs = flush_peer_snapshot(&mut snapshot, mon::ip_of(&l[2]), &header, l[4].u8());
            // hash-map order is unspecified: route messages first, then EoRs, each group sorted
            let n_routes = msgs
                .iter()
                .filter(|m| {
                    matches!(
                        m,
                        bmp::Message::RouteMonitoring {
                            update: bgp::Message::Update(bgp::Update::Reach { .. }),
                            ..
                        }
                    )
                })
                .count();
            let eor_after_routes = msgs.iter().skip(n_routes).all(|m| {
                matches!(
                    m,
                    bmp::Message::RouteMonitoring {
                        update: bgp::Message::Update(bgp::Update::EndOfRib(_)),
                        ..
                    }
                )
            });
            let mut vals: Vec<Val> = msgs.iter().map(|m| rm_val(&mut codec, m)).collect();
            vals.sort_by_key(|v| v.to_string());
            let mut left: Vec<Val> = snapshot.keys().map(mon::ip_val).collect();
            left.sort_by_key(|v| v.to_string());
            Val::L(vec![Val::L(vals), Val::b(eor_after_routes), Val::L(left)])
        }
        t => panic!("verif: bad case tag {}", t),
    }
}

#[test]
fn verif_bmp_cases() {
    val::run_cases(run_case);
}
