// Correspondence harness for GrpcService::local_path (daemon/src/event/grpc.rs, property C17).
// Included as the body of `event::grpc::verif_hx` under cfg(all(test, osrg_rustybgp_verif)).
//
// case = [5, family (afi<<16|safi, or -1 for absent), api_nlri, [api_attr ...], identifier]
// observation = [0] when local_path refuses the path, else
//   [1, family, nlri, identifier, [attr ...], nexthop bytes, insert] where insert is the outcome of
//   Table::insert of the assembled path next to a competitor [ORIGIN igp, empty AS_PATH]
//   (1 = new path ranked first, 0 = second, [-1] = panic).
use super::*;

#[allow(dead_code)]
mod val {
    include!(concat!(env!("VERIF_HX_DIR"), "/common/val.rs"));
}
use val::Val;

#[allow(dead_code)]
mod c17_api {
    include!(concat!(env!("VERIF_HX_DIR"), "/common/c17_api.rs"));
}
use c17_api::*;

use std::panic::{AssertUnwindSafe, catch_unwind};

fn service() -> GrpcService {
    let (active_conn_tx, _) = mpsc::unbounded_channel();
    let (bfd_tx, _bfd_rx) = mpsc::unbounded_channel();
    let (tx, _rx) = mpsc::unbounded_channel();
    let global = Arc::new(tokio::sync::RwLock::new(Global::new(tx, bfd_tx)));
    GrpcService::new(
        Arc::new(tokio::sync::Notify::new()),
        active_conn_tx,
        global,
        Arc::new(crate::table_manager::TableManager::new(1)),
    )
}

fn insert_next_to_competitor(
    attrs: Arc<Vec<packet::Attribute>>,
    nexthop: Option<bgp::Nexthop>,
) -> Val {
    use table::{InsertResult, Source, Table};
    let mut t = Table::new(0);
    let mk = |k: u8| {
        Arc::new(Source::new(
            IpAddr::V4(Ipv4Addr::new(192, 0, 2, k)),
            IpAddr::V4(Ipv4Addr::new(192, 0, 2, 254)),
            65000 + k as u32,
            65000,
            Ipv4Addr::from(k as u32),
            PeerRole::Ebgp,
        ))
    };
    let net = packet::Nlri::V4(bgp::Ipv4Net { addr: Ipv4Addr::new(10, 0, 0, 0), mask: 8 });
    let nh = Some(bgp::Nexthop::V4(Ipv4Addr::new(192, 0, 2, 1)));
    let comp = vec![
        packet::Attribute::new_with_value(packet::Attribute::ORIGIN, 0).unwrap(),
        packet::Attribute::empty_as_path(),
    ];
    let _ = t.insert(mk(1), Family::IPV4, net.clone(), 0, nh, Arc::new(comp), None, false, false, None, 0);
    let newsrc = mk(2);
    match t.insert(newsrc.clone(), Family::IPV4, net, 0, nexthop, attrs, None, false, false, None, 0) {
        InsertResult::Changed(ch) => Val::b(
            ch.current_paths
                .first()
                .map(|p| Arc::ptr_eq(&p.source, &newsrc))
                .unwrap_or(false),
        ),
        _ => i(-3),
    }
}

fn run_case(case: &Val) -> Val {
    let l = case.list();
    let fam = l[1].int();
    let path = api::Path {
        nlri: Some(api_nlri_of(&l[2])),
        family: if fam < 0 {
            None
        } else {
            Some(api::Family { afi: (fam >> 16) as i32, safi: (fam & 0xffff) as i32 })
        },
        pattrs: l[3].list().iter().map(api_of).collect(),
        identifier: l[4].u32(),
        ..Default::default()
    };
    let svc = service();
    match svc.local_path(path) {
        Err(_) => Val::L(vec![i(0)]),
        Ok((family, nets, attrs, nexthop)) => {
            let attrs = attrs.unwrap();
            let ins = match catch_unwind(AssertUnwindSafe(|| {
                insert_next_to_competitor(attrs.clone(), nexthop)
            })) {
                Ok(v) => v,
                Err(_) => Val::L(vec![i(-1)]),
            };
            Val::L(vec![
                i(1),
                Val::n(((family.afi() as u32) << 16) | family.safi() as u32),
                nlri_val(&nets[0].nlri),
                Val::n(nets[0].path_id),
                Val::L(attrs.iter().map(attr_val).collect()),
                Val::from_bytes(&nexthop.map(|n| n.to_bytes()).unwrap_or_default()),
                ins,
            ])
        }
    }
}

#[test]
fn verif_grpc_cases() {
    val::run_cases(run_case);
}
