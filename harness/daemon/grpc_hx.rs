// Correspondence harness for GrpcService::local_path (daemon/src/event/grpc.rs, property C17).
// Included as the body of `event::grpc::verif_hx` under cfg(all(test, osrg_rustybgp_verif)).
//
// case = [5, family (afi<<16|safi, or -1 for absent), api_nlri, [api_attr ...], identifier]
// observation = [0] when local_path refuses the path, else
//   [1, family, nlri, identifier, [attr ...], nexthop bytes, insert] where insert is the outcome of
//   Table::insert of the assembled path next to a competitor [ORIGIN igp, empty AS_PATH]
//   (1 = new path ranked first, 0 = second, [-1] = panic).
use super::*;

#[allow(dead_code)]
mod val {
    include!(concat!(env!("VERIF_HX_DIR"), "/common/val.rs"));
}
use val::Val;

#[allow(dead_code)]
mod c17_api {
    include!(concat!(env!("VERIF_HX_DIR"), "/common/c17_api.rs"));
}
use c17_api::*;

use std::panic::{AssertUnwindSafe, catch_unwind};

fn service() -> GrpcService {
    let (active_conn_tx, _) = mpsc::unbounded_channel();
    let (bfd_tx, _bfd_rx) = mpsc::unbounded_channel();
    let (tx, _rx) = mpsc::unbounded_channel();
    let global = Arc::new(tokio::sync::RwLock::new(Global::new(tx, bfd_tx)));
    GrpcService::new(
        Arc::new(tokio::sync::Notify::new()),
        active_conn_tx,
        global,
        Arc::new(crate::table_manager::TableManager::new(1)),
    )
}

fn insert_next_to_competitor(
    attrs: Arc<Vec<packet::Attribute>>,
    nexthop: Option<bgp::Nexthop>,
) -> Val {
    use table::{InsertResult, Source, Table};
    let mut t = Table::new(0);
    let mk = |k: u8| {
        Arc::new(Source::new(
            IpAddr::V4(Ipv4Addr::new(192, 0, 2, k)),
            IpAddr::V4(Ipv4Addr::new(192, 0, 2, 254)),
            65000 + k as u32,
            65000,
            Ipv4Addr::from(k as u32),
            PeerRole::Ebgp,
        ))
    };
    let net = packet::Nlri::V4(bgp::Ipv4Net { addr: Ipv4Addr::new(10, 0, 0, 0), mask: 8 });
    let nh = Some(bgp::Nexthop::V4(Ipv4Addr::new(192, 0, 2, 1)));
    let comp = vec![
        packet::Attribute::new_with_value(packet::Attribute::ORIGIN, 0).unwrap(),
        packet::Attribute::empty_as_path(),
    ];
    let _ = t.insert(mk(1), Family::IPV4, net.clone(), 0, nh, Arc::new(comp), None, false, false, None, 0);
    let newsrc = mk(2);
    match t.insert(newsrc.clone(), Family::IPV4, net, 0, nexthop, attrs, None, false, false, None, 0) {
        InsertResult::Changed(ch) => Val::b(
            ch.current_paths
                .first()
                .map(|p| Arc::ptr_eq(&p.source, &newsrc))
                .unwrap_or(false),
        ),
        _ => i(-3),
    }
}

fn run_case(case: &Val) -> Val {
    let l = case.list();
    let fam = l[1].int();
    let path = api::Path {
        nlri: Some(api_nlri_of(&l[2])),
        family: if fam < 0 {
            None
        } else {
            Some(api::Family { afi: (fam >> 16) as i32, safi: (fam & 0xffff) as i32 })
        },
        pattrs: l[3].list().iter().map(api_of).collect(),
        identifier: l[4].u32(),
        ..Default::default()
    };
    let svc = service();
    match svc.local_path(path) {
        Err(_) => Val::L(vec![i(0)]),
        Ok((family, nets, attrs, nexthop)) => {
            let attrs = attrs.unwrap();
            let ins = match catch_unwind(AssertUnwindSafe(|| {
                insert_next_to_competitor(attrs.clone(), nexthop)
            })) {
                Ok(v) => v,
                Err(_) => Val::L(vec![i(-1)]),
            };
            Val::L(vec![
                i(1),
                Val::n(((family.afi() as u32) << 16) | family.safi() as u32),
                nlri_val(&nets[0].nlri),
                Val::n(nets[0].path_id),
                Val::L(attrs.iter().map(attr_val).collect()),
                Val::from_bytes(&nexthop.map(|n| n.to_bytes()).unwrap_or_default()),
                ins,
            ])
        }
    }
}

#[test]
fn verif_grpc_cases() {
    val::run_cases(run_case);
}

// ---------------------------------------------------------------------------
// Property C13, connection layer: the real add_rpki / delete_rpki / enable_rpki / disable_rpki /
// reset_rpki API functions, the real RpkiClient::try_connect task and serve() over a loopback TCP
// connection to a cache played by this harness (model: coq/Model/RtrConn.v).
//
//   case = [ops]
//   op = [0]                         add_rpki              wait: [expect_accept]
//      | [1]                         delete_rpki           wait: [expect_eof]
//      | [2]                         enable_rpki           wait: [expect_accept]
//      | [3]                         disable_rpki          wait: [expect_eof]
//      | [4]                         reset_rpki (hard)     wait: [expect_eof, expect_accept]
//      | [5]                         reset_rpki (soft)     wait: [expect_query]
//      | [6, [bytes], total, q]      the cache writes one TCP segment; then wait until the client's
//                                    RpkiState counters of received PDUs add up to `total`; q = 1 when a
//                                    Serial Query is due afterwards (a pending soft reset)
//      | [7]                         the cache closes the connection; wait until up = false
//   every op carries its waits as trailing fields: op = [kind, args.., [w_eof, w_accept, w_query]]
//   observation per op = [status, [bytes read from the client], table, state]
//     status = gRPC code of the API call (0 = ok; 0 for cache-side ops), or -3 when an expected event did
//              not happen within the time limit
//     table  = [[4|6, [octets], mask, maxlen, asn, 0], ...]
//     state  = [serial, end_of_data count, up] of the registered client, [] when not registered
async fn conn_dump(svc: &GrpcService, sockaddr: &SocketAddr) -> (Val, Val) {
    let mut out = Vec::new();
    for fam in [packet::Family::IPV4, packet::Family::IPV6] {
        for (net, roa) in svc.tables.collect_roa(fam) {
            let (f, bytes, mask) = match &net {
                packet::IpNet::V4(n) => (4u8, n.addr.octets().to_vec(), n.mask),
                packet::IpNet::V6(n) => (6u8, n.addr.octets().to_vec(), n.mask),
            };
            out.push(Val::L(vec![
                Val::n(f),
                Val::from_bytes(&bytes),
                Val::n(mask),
                Val::n(roa.max_length),
                Val::n(roa.as_number),
                Val::n(0u8),
            ]));
        }
    }
    let global = svc.global.read().await;
    let st = match global.rpki_clients.get(sockaddr) {
        None => Val::L(vec![]),
        Some(c) => Val::L(vec![
            Val::n(c.state.serial.load(Ordering::Relaxed)),
            Val::I(c.state.end_of_data.load(Ordering::Relaxed) as i128),
            Val::b(c.state.up.load(Ordering::Relaxed)),
        ]),
    };
    (Val::L(out), st)
}

async fn conn_received(svc: &GrpcService, sockaddr: &SocketAddr) -> i64 {
    let global = svc.global.read().await;
    match global.rpki_clients.get(sockaddr) {
        None => -1,
        Some(c) => {
            let s = &c.state;
            s.received_ipv4.load(Ordering::Relaxed)
                + s.received_ipv6.load(Ordering::Relaxed)
                + s.serial_notify.load(Ordering::Relaxed)
                + s.cache_reset.load(Ordering::Relaxed)
                + s.cache_response.load(Ordering::Relaxed)
                + s.end_of_data.load(Ordering::Relaxed)
                + s.error.load(Ordering::Relaxed)
        }
    }
}

const CONN_WAIT: std::time::Duration = std::time::Duration::from_secs(8);

async fn conn_read_exact(s: &mut tokio::net::TcpStream, n: usize) -> Option<Vec<u8>> {
    use tokio::io::AsyncReadExt;
    let mut buf = vec![0u8; n];
    match tokio::time::timeout(CONN_WAIT, s.read_exact(&mut buf)).await {
        Ok(Ok(_)) => Some(buf),
        _ => None,
    }
}

// the client closes its end: read returns 0 (or a reset); bytes still in flight are dropped
async fn conn_wait_eof(s: &mut tokio::net::TcpStream) -> bool {
    use tokio::io::AsyncReadExt;
    let mut buf = [0u8; 256];
    let r = tokio::time::timeout(CONN_WAIT, async {
        loop {
            match s.read(&mut buf).await {
                Ok(0) | Err(_) => return,
                Ok(_) => {}
            }
        }
    })
    .await;
    r.is_ok()
}

async fn run_conn_async(case: &Val) -> Val {
    use tokio::io::AsyncWriteExt;
    let svc = service();
    let listener = tokio::net::TcpListener::bind("127.0.0.1:0").await.expect("bind");
    let sockaddr = listener.local_addr().expect("local_addr");
    let address = "127.0.0.1".to_string();
    let port = sockaddr.port() as u32;
    let mut live: Option<tokio::net::TcpStream> = None;
    let mut obs = Vec::new();
    let code = |r: Result<(), tonic::Status>| -> i128 {
        match r {
            Ok(()) => 0,
            Err(s) => s.code() as i32 as i128,
        }
    };
    for op in case.at(0).list() {
        let kind = op.at(0).int();
        let waits = op.list().last().expect("waits").clone();
        let (w_eof, w_accept, w_query) = (waits.at(0).int() != 0, waits.at(1).int() != 0, waits.at(2).int() != 0);
        let mut status: i128 = 0;
        let mut wrote: Vec<u8> = Vec::new();
        match kind {
            0 => {
                status = code(
                    svc.add_rpki(tonic::Request::new(api::AddRpkiRequest { address: address.clone(), port, lifetime: 0 }))
                        .await
                        .map(|_| ()),
                )
            }
            1 => {
                status = code(
                    svc.delete_rpki(tonic::Request::new(api::DeleteRpkiRequest { address: address.clone(), port })).await.map(|_| ()),
                )
            }
            2 => {
                status = code(
                    svc.enable_rpki(tonic::Request::new(api::EnableRpkiRequest { address: address.clone(), port })).await.map(|_| ()),
                )
            }
            3 => {
                status = code(
                    svc.disable_rpki(tonic::Request::new(api::DisableRpkiRequest { address: address.clone(), port })).await.map(|_| ()),
                )
            }
            4 | 5 => {
                status = code(
                    svc.reset_rpki(tonic::Request::new(api::ResetRpkiRequest { address: address.clone(), port, soft: kind == 5 }))
                        .await
                        .map(|_| ()),
                )
            }
            6 => {
                if let Some(s) = live.as_mut() {
                    let _ = s.write_all(&op.at(1).bytes()).await;
                    let _ = s.flush().await;
                }
                let total = op.at(2).int() as i64;
                let t0 = std::time::Instant::now();
                loop {
                    if conn_received(&svc, &sockaddr).await >= total {
                        break;
                    }
                    if t0.elapsed() > CONN_WAIT {
                        status = -3;
                        break;
                    }
                    tokio::time::sleep(std::time::Duration::from_millis(1)).await;
                }
            }
            7 => {
                live = None;
                let t0 = std::time::Instant::now();
                loop {
                    let up = {
                        let global = svc.global.read().await;
                        global.rpki_clients.get(&sockaddr).map(|c| c.state.up.load(Ordering::Relaxed)).unwrap_or(false)
                    };
                    if !up {
                        break;
                    }
                    if t0.elapsed() > CONN_WAIT {
                        status = -3;
                        break;
                    }
                    tokio::time::sleep(std::time::Duration::from_millis(1)).await;
                }
            }
            k => panic!("verif: bad conn op {}", k),
        }
        if w_eof {
            match live.take() {
                Some(mut s) => {
                    if !conn_wait_eof(&mut s).await {
                        status = -3;
                    }
                }
                None => status = -3,
            }
        }
        if w_accept {
            match tokio::time::timeout(CONN_WAIT, listener.accept()).await {
                Ok(Ok((mut s, _))) => {
                    match conn_read_exact(&mut s, 8).await {
                        Some(b) => wrote.extend_from_slice(&b),
                        None => status = -3,
                    }
                    live = Some(s);
                }
                _ => status = -3,
            }
        }
        if w_query {
            match live.as_mut() {
                Some(s) => match conn_read_exact(s, 12).await {
                    Some(b) => wrote.extend_from_slice(&b),
                    None => status = -3,
                },
                None => status = -3,
            }
        }
        // let the tasks that were woken by this op run to their next wait
        for _ in 0..4 {
            tokio::task::yield_now().await;
        }
        let (table, st) = conn_dump(&svc, &sockaddr).await;
        obs.push(Val::L(vec![Val::I(status), Val::from_bytes(&wrote), table, st]));
    }
    // end of the case: stop whatever task is left
    let _ = svc.delete_rpki(tonic::Request::new(api::DeleteRpkiRequest { address, port })).await;
    Val::L(obs)
}

fn run_conn_case(case: &Val) -> Val {
    let rt = tokio::runtime::Builder::new_current_thread().enable_all().build().expect("runtime");
    rt.block_on(run_conn_async(case))
}

#[test]
fn verif_rpki_conn_cases() {
    val::run_cases(run_conn_case);
}
