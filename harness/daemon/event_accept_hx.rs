// C16, admission decision: drives the real accept_connection / Global::add_peer /
// PeerParams::{apply_peer_group, build, build_local_cap} / PeerSession::run on a
// real Global built from the generated configuration, with real loopback TCP
// connections whose source address is the chosen 127.x.y.z (or ::1).
// Included as `event::verif_hx::accept_hx`.
use super::*;

fn opt_u<T: From<u8>>(v: &Val, f: impl Fn(&Val) -> T) -> Option<T> {
    v.list().first().map(f)
}

fn ip_of(v: &Val) -> IpAddr {
    let o = v.at(1).bytes();
    if v.at(0).int() == 4 {
        IpAddr::V4(Ipv4Addr::new(o[0], o[1], o[2], o[3]))
    } else {
        let mut a = [0u8; 16];
        a.copy_from_slice(&o);
        IpAddr::V6(std::net::Ipv6Addr::from(a))
    }
}

fn ip_val(a: &IpAddr) -> Val {
    match a {
        IpAddr::V4(x) => Val::L(vec![Val::n(4u8), Val::from_bytes(&x.octets())]),
        IpAddr::V6(x) => Val::L(vec![Val::n(6u8), Val::from_bytes(&x.octets())]),
    }
}

fn rr_of(v: &Val) -> RouteReflectorConfig {
    RouteReflectorConfig {
        route_reflector_client: v.at(0).bool(),
        route_reflector_cluster_id: v.at(1).list().first().map(|c| Ipv4Addr::from(c.u32())),
    }
}

fn fam_map_u8(v: &Val) -> FnvHashMap<Family, u8> {
    v.list().iter().map(|p| (fam_of(p.at(0)), p.at(1).u8())).collect()
}
fn fam_map_usize(v: &Val) -> FnvHashMap<Family, usize> {
    v.list().iter().map(|p| (fam_of(p.at(0)), p.at(1).usize())).collect()
}
fn fam_map_u32(v: &Val) -> FnvHashMap<Family, u32> {
    v.list().iter().map(|p| (fam_of(p.at(0)), p.at(1).u32())).collect()
}

fn gr_of(v: &Val) -> Option<GrPeerConfig> {
    v.list().first().map(|g| GrPeerConfig {
        restart_time: g.at(0).u16(),
        notification_enabled: g.at(1).bool(),
        families: g.at(2).list().iter().map(fam_of).collect(),
    })
}

fn llgr_of(v: &Val) -> Option<LlgrPeerConfig> {
    v.list().first().map(|g| LlgrPeerConfig {
        families: g.list().iter().map(|p| (fam_of(p.at(0)), p.at(1).u32())).collect(),
    })
}

// group = [as, prefixes, rs, hold, local_asn, passive, rr, multihop, ttlsec, families, send_max, gr, llgr]
fn group_of(v: &Val) -> PeerGroup {
    let l = v.list();
    PeerGroup {
        as_number: l[0].u32(),
        dynamic_peers: l[1]
            .list()
            .iter()
            .map(|n| DynamicPeer { prefix: packet::IpNet::new(ip_of(n), n.at(2).u8()) })
            .collect(),
        route_server_client: l[2].bool(),
        holdtime: l[3].list().first().map(|h| h.u64()),
        local_asn: l[4].u32(),
        passive: l[5].bool(),
        route_reflector: rr_of(&l[6]),
        multihop_ttl: l[7].list().first().map(|h| h.u8()),
        ttl_security: l[8].list().first().map(|h| h.u8()),
        auth_password: None,
        connect_retry_time: None,
        families: fam_map_u8(&l[9]),
        send_max: fam_map_usize(&l[10]),
        graceful_restart: gr_of(&l[11]),
        llgr: llgr_of(&l[12]),
    }
}

// params = [expected, local_asn, passive, rs, rr, delete, admin_down, hold, multihop, ttlsec,
//           families, send_max, prefix_limits, gr, llgr]
fn params_of(addr: IpAddr, v: &Val) -> PeerParams {
    let l = v.list();
    PeerParams {
        remote_addr: addr,
        remote_port: Global::BGP_PORT,
        expected_remote_asn: l[0].u32(),
        local_asn: l[1].u32(),
        passive: l[2].bool(),
        rs_client: l[3].bool(),
        route_reflector: rr_of(&l[4]),
        delete_on_disconnected: l[5].bool(),
        admin_down: l[6].bool(),
        state: SessionState::Idle,
        holdtime: l[7].u64(),
        connect_retry_time: PeerParams::DEFAULT_CONNECT_RETRY_TIME,
        multihop_ttl: l[8].list().first().map(|h| h.u8()),
        ttl_security: l[9].list().first().map(|h| h.u8()),
        password: None,
        families: fam_map_u8(&l[10]),
        send_max: fam_map_usize(&l[11]),
        prefix_limits: fam_map_u32(&l[12]),
        graceful_restart: gr_of(&l[13]),
        llgr: llgr_of(&l[14]),
        bfd_config: None,
        neighbor_interface: None,
        bind_interface: None,
        export_policy: None,
    }
}

fn sorted_pairs<T: Copy + Into<i128>>(m: impl Iterator<Item = (Family, T)>) -> Val {
    let mut v: Vec<(u32, i128)> = m
        .map(|(f, x)| ((((f.afi() as u32) << 16) | f.safi() as u32), x.into()))
        .collect();
    v.sort();
    Val::L(v.iter().map(|(f, x)| Val::L(vec![Val::n(*f), Val::I(*x)])).collect())
}

fn role_code(r: PeerRole) -> u8 {
    match r {
        PeerRole::Ebgp => 0,
        PeerRole::RsClient => 1,
        PeerRole::Ibgp => 2,
        PeerRole::IbgpRrClient => 3,
        PeerRole::ConfedEbgp => 4,
    }
}

fn session_val(s: &PeerSession) -> Val {
    let ttl = s.stream.as_ref().and_then(|st| st.ttl().ok()).unwrap_or(64);
    Val::L(vec![
        Val::n(if s.role == Role::Active { 0u8 } else { 1u8 }),
        Val::n(role_code(s.export_ctx.role)),
        Val::n(s.export_ctx.local_asn),
        caps_val(&s.local_cap),
        Val::b(s.is_restarting),
        sorted_pairs(s.prefix_counters.iter().map(|(f, (max, _))| (*f, *max))),
        Val::n(u32::from(s.local_router_id)),
        Val::opt(s.cluster_id.map(|c| Val::n(u32::from(c)))),
        Val::n(s.export_ctx.confederation_id),
        // the default TTL (64) means "left alone"
        if ttl == 64 { Val::L(vec![]) } else { Val::L(vec![Val::n(ttl)]) },
    ])
}

fn peers_val(g: &Global) -> Val {
    let mut rows: Vec<(Vec<u8>, Val)> = g
        .peers
        .iter()
        .map(|(a, p)| {
            let (ca, cp, smax, fsm_view) = {
                let ctx = p.context.lock().unwrap();
                let arb = ctx.conn_arbiter.lock().unwrap();
                (
                    arb.active_close_tx.is_some(),
                    arb.passive_close_tx.is_some(),
                    sorted_pairs(arb.fsm().configured_send_max().iter().map(|(f, v)| (*f, *v as u32))),
                    // judged by the oracle only (not part of the model's observation): the FSM slots of the
                    // two directions and the capabilities the FSM will put into the next OPEN
                    Val::L(vec![
                        Val::n(u8::from(arb.fsm().state(Role::Active))),
                        Val::n(u8::from(arb.fsm().state(Role::Passive))),
                        caps_val(arb.fsm().local_cap()),
                    ]),
                )
            };
            let key = match a {
                IpAddr::V4(x) => x.octets().to_vec(),
                IpAddr::V6(x) => x.octets().to_vec(),
            };
            (
                key,
                Val::L(vec![
                    ip_val(a),
                    Val::n(p.config.expected_remote_asn),
                    Val::n(p.config.local_asn),
                    Val::b(p.config.passive),
                    Val::b(p.config.delete_on_disconnected),
                    Val::n(p.config.holdtime),
                    caps_val(&p.config.local_cap),
                    Val::b(p.config.route_server_client),
                    Val::b(p.config.route_reflector.route_reflector_client),
                    Val::opt(p.config.route_reflector.route_reflector_cluster_id.map(|c| Val::n(u32::from(c)))),
                    sorted_pairs(p.config.prefix_limits.iter().map(|(f, v)| (*f, *v))),
                    smax,
                    Val::b(p.admin_down),
                    Val::b(ca),
                    Val::b(cp),
                    fsm_view,
                ]),
            )
        })
        .collect();
    rows.sort_by(|a, b| a.0.cmp(&b.0));
    Val::L(rows.into_iter().map(|r| r.1).collect())
}

type Conns = std::collections::HashMap<(IpAddr, bool), (TcpStream, tokio::task::JoinHandle<()>)>;

// What the admitted session puts on the wire first (judged by the oracle only): [] when no OPEN arrives
// within 3 s (or the connection is closed), else [[my_as, hold_time, [optional parameter octets]]].
async fn read_open(client: &mut TcpStream) -> Val {
    use tokio::io::AsyncReadExt;
    let r = tokio::time::timeout(Duration::from_secs(3), async {
        let mut h = [0u8; 19];
        client.read_exact(&mut h).await.ok()?;
        let len = u16::from_be_bytes([h[16], h[17]]) as usize;
        if h[18] != 1 || len < 29 {
            return None;
        }
        let mut b = vec![0u8; len - 19];
        client.read_exact(&mut b).await.ok()?;
        Some(b)
    })
    .await;
    match r {
        Ok(Some(b)) => Val::L(vec![Val::L(vec![
            Val::n(u16::from_be_bytes([b[1], b[2]])),
            Val::n(u16::from_be_bytes([b[3], b[4]])),
            Val::from_bytes(&b[10..]),
        ])]),
        _ => Val::L(vec![]),
    }
}

// case = [asn, router id, confederation, restarting, groups, statics, ops]
async fn run_accept_case_async(case: &Val) -> Val {
    let l = case.list();
    let (tx, _rx) = mpsc::unbounded_channel();
    let (bfd_tx, _bfd_rx) = mpsc::unbounded_channel();
    let mut g = Global::new(tx, bfd_tx);
    g.asn = l[0].u32();
    g.router_id = Ipv4Addr::from(l[1].u32());
    if let Some(c) = l[2].list().first() {
        g.confederation = Some(ConfederationConfig {
            id: c.at(0).u32(),
            members: c.at(1).list().iter().map(|m| m.u32()).collect(),
        });
    }
    if l[3].bool() {
        g.selection_deferral = Some(crate::gr::RestartingDeferral::new(FnvHashMap::default(), None).0);
    }
    let groups: Vec<&Val> = l[4].list().iter().collect();
    for (k, gv) in groups.iter().enumerate() {
        g.peer_group.insert(format!("g{}", k), group_of(gv));
    }
    // configured neighbours: PeerParams (+ apply_peer_group) through Global::add_peer
    for st in l[5].list() {
        let addr = ip_of(st.at(0));
        let mut params = params_of(addr, st.at(1));
        if let Some(k) = st.at(2).list().first() {
            let pg = group_of(groups[k.usize()]);
            params.apply_peer_group(&pg);
        }
        let _ = g.add_peer(params, None);
    }
    // the iteration order of the peer_group map is an input of the model
    let mut order: Vec<Val> = vec![Val::I(-7)];
    order.extend(g.peer_group.keys().map(|name| Val::us(name[1..].parse::<usize>().unwrap())));
    let mut out = vec![Val::L(order), peers_val(&g)];
    let global: GlobalHandle = Arc::new(tokio::sync::RwLock::new(g));
    let tables: TableHandle = Arc::new(TableManager::new(1));
    let (active_tx, _active_rx) = mpsc::unbounded_channel::<TcpStream>();
    let l4 = tokio::net::TcpListener::bind("127.0.0.1:0").await.unwrap();
    let l6 = tokio::net::TcpListener::bind("[::1]:0").await.ok();
    let svc = grpc::GrpcService::new(
        Arc::new(tokio::sync::Notify::new()),
        active_tx.clone(),
        global.clone(),
        tables.clone(),
    );
    let mut conns: Conns = Conns::new();
    let mut zombies: Vec<TcpStream> = Vec::new();
    for op in l[6].list() {
        let ol = op.list();
        let addr = ip_of(&ol[1]);
        let mut res = Val::L(vec![]);
        match ol[0].int() {
            0 => {
                let role = if ol[2].int() == 0 { Role::Active } else { Role::Passive };
                let (client, server) = match addr {
                    IpAddr::V4(_) => {
                        let sock = tokio::net::TcpSocket::new_v4().unwrap();
                        sock.bind(SocketAddr::new(addr, 0)).expect("bind 127.x.y.z");
                        let (c, s) = tokio::join!(sock.connect(l4.local_addr().unwrap()), l4.accept());
                        (c.unwrap(), s.unwrap().0)
                    }
                    IpAddr::V6(_) => {
                        let l6 = l6.as_ref().expect("no ::1 on this host");
                        let sock = tokio::net::TcpSocket::new_v6().unwrap();
                        sock.bind(SocketAddr::new(addr, 0)).expect("bind ::1");
                        let (c, s) = tokio::join!(sock.connect(l6.local_addr().unwrap()), l6.accept());
                        (c.unwrap(), s.unwrap().0)
                    }
                };
                let mut client = client;
                match accept_connection(&global, &tables, server, role).await {
                    Some(session) => {
                        let sv = session_val(&session);
                        let h = tokio::spawn(session.run(global.clone(), active_tx.clone()));
                        res = Val::L(vec![sv, read_open(&mut client).await]);
                        if let Some(old) = conns.insert((addr, role == Role::Active), (client, h)) {
                            // cannot happen if the same-direction check works; keep the socket open
                            zombies.push(old.0);
                        }
                    }
                    None => drop(client),
                }
            }
            1 => {
                let active = ol[2].int() == 0;
                if let Some((client, h)) = conns.remove(&(addr, active)) {
                    drop(client);
                    let _ = tokio::time::timeout(Duration::from_secs(5), h).await;
                }
            }
            2 => {
                let mut gw = global.write().await;
                if let Some(p) = gw.peers.get_mut(&addr) {
                    p.admin_down = ol[2].bool();
                }
            }
            3 | 4 | 5 => {
                // the operator's enable / disable / delete through the gRPC service methods
                use api::go_bgp_service_server::GoBgpService;
                let address = addr.to_string();
                match ol[0].int() {
                    3 => {
                        let _ = svc
                            .disable_peer(tonic::Request::new(api::DisablePeerRequest {
                                address,
                                ..Default::default()
                            }))
                            .await;
                    }
                    4 => {
                        let _ = svc
                            .enable_peer(tonic::Request::new(api::EnablePeerRequest { address }))
                            .await;
                    }
                    _ => {
                        let _ = svc
                            .delete_peer(tonic::Request::new(api::DeletePeerRequest {
                                address,
                                ..Default::default()
                            }))
                            .await;
                    }
                }
                if ol[0].int() != 4 {
                    // the connection tasks were told to stop: wait for their bookkeeping
                    for active in [true, false] {
                        if let Some((client, h)) = conns.remove(&(addr, active)) {
                            let _ = tokio::time::timeout(Duration::from_secs(5), h).await;
                            drop(client);
                        }
                    }
                }
            }
            6 => {
                // delete_peer immediately followed by a new connection from the same
                // address, with the deleted neighbour's connection task still on its way
                // out: the task is held at its first lock request in PeerSession::run
                // until the new connection has been admitted (tokio's RwLock is FIFO).
                use api::go_bgp_service_server::GoBgpService;
                let role = if ol[2].int() == 0 { Role::Active } else { Role::Passive };
                let sock = tokio::net::TcpSocket::new_v4().unwrap();
                sock.bind(SocketAddr::new(addr, 0)).expect("bind 127.x.y.z");
                let (c, sv) = tokio::join!(sock.connect(l4.local_addr().unwrap()), l4.accept());
                let (client, server) = (c.unwrap(), sv.unwrap().0);
                let _ = svc
                    .delete_peer(tonic::Request::new(api::DeletePeerRequest {
                        address: addr.to_string(),
                        ..Default::default()
                    }))
                    .await;
                let guard = global.write().await;
                for _ in 0..20 {
                    tokio::task::yield_now().await; // the old tasks run up to their lock request
                }
                let acc = accept_connection(&global, &tables, server, role);
                tokio::pin!(acc);
                let _ = futures::poll!(acc.as_mut()); // queue the admission behind them
                drop(guard);
                let admitted = acc.await;
                let mut old: Vec<(TcpStream, tokio::task::JoinHandle<()>)> = Vec::new();
                for active in [true, false] {
                    if let Some(x) = conns.remove(&(addr, active)) {
                        old.push(x);
                    }
                }
                let mut client = client;
                match admitted {
                    Some(session) => {
                        let sv = session_val(&session);
                        let h = tokio::spawn(session.run(global.clone(), active_tx.clone()));
                        res = Val::L(vec![sv, read_open(&mut client).await]);
                        conns.insert((addr, role == Role::Active), (client, h));
                    }
                    None => drop(client),
                }
                for (client, h) in old {
                    let _ = tokio::time::timeout(Duration::from_secs(5), h).await;
                    drop(client);
                }
            }
            7 => {
                // UpdatePeer: [7, addr, [peer_asn, local_asn, hold_time, passive, rs_client, rr_client, cluster id?]]
                use api::go_bgp_service_server::GoBgpService;
                let u = ol[2].list();
                let peer = api::Peer {
                    conf: Some(api::PeerConf {
                        neighbor_address: addr.to_string(),
                        peer_asn: u[0].u32(),
                        local_asn: u[1].u32(),
                        ..Default::default()
                    }),
                    timers: Some(api::Timers {
                        config: Some(api::TimersConfig { hold_time: u[2].u64(), ..Default::default() }),
                        state: None,
                    }),
                    transport: Some(api::Transport { passive_mode: u[3].bool(), ..Default::default() }),
                    route_server: Some(api::RouteServer { route_server_client: u[4].bool(), ..Default::default() }),
                    route_reflector: Some(api::RouteReflector {
                        route_reflector_client: u[5].bool(),
                        route_reflector_cluster_id: u[6]
                            .list()
                            .first()
                            .map(|c| Ipv4Addr::from(c.u32()).to_string())
                            .unwrap_or_default(),
                    }),
                    ..Default::default()
                };
                let before: Vec<bool> = {
                    let g = global.read().await;
                    match g.peers.get(&addr) {
                        Some(p) => {
                            let ctx = p.context.lock().unwrap();
                            let arb = ctx.conn_arbiter.lock().unwrap();
                            vec![arb.active_close_tx.is_some(), arb.passive_close_tx.is_some()]
                        }
                        None => vec![false, false],
                    }
                };
                let _ = svc
                    .update_peer(tonic::Request::new(api::UpdatePeerRequest { peer: Some(peer), do_soft_reset_in: false }))
                    .await;
                // connections the update tore down: wait for their tasks' bookkeeping
                let torn: Vec<bool> = {
                    let g = global.read().await;
                    match g.peers.get(&addr) {
                        Some(p) => {
                            let ctx = p.context.lock().unwrap();
                            let arb = ctx.conn_arbiter.lock().unwrap();
                            vec![before[0] && arb.active_close_tx.is_none(), before[1] && arb.passive_close_tx.is_none()]
                        }
                        None => before.clone(),
                    }
                };
                for (k, active) in [true, false].into_iter().enumerate() {
                    if torn[k] {
                        if let Some((client, h)) = conns.remove(&(addr, active)) {
                            let _ = tokio::time::timeout(Duration::from_secs(5), h).await;
                            drop(client);
                        }
                    }
                }
            }
            8 => {
                // the connection (addr, old direction) ends, and while its task is between
                // apply_disconnect and the final lock of PeerSession::run a new connection
                // (addr, new direction) is admitted: [8, addr, old, new].  The task is held at
                // its first lock request until the admission is queued (tokio's RwLock is FIFO).
                let old_active = ol[2].int() == 0;
                let role = if ol[3].int() == 0 { Role::Active } else { Role::Passive };
                if let Some((old_client, old_h)) = conns.remove(&(addr, old_active)) {
                    let sock = tokio::net::TcpSocket::new_v4().unwrap();
                    sock.bind(SocketAddr::new(addr, 0)).expect("bind 127.x.y.z");
                    let (c, sv) = tokio::join!(sock.connect(l4.local_addr().unwrap()), l4.accept());
                    let (client, server) = (c.unwrap(), sv.unwrap().0);
                    let guard = global.write().await;
                    drop(old_client);
                    // the old task reads the end of the stream and reaches its lock request
                    tokio::time::sleep(Duration::from_millis(30)).await;
                    let acc = accept_connection(&global, &tables, server, role);
                    tokio::pin!(acc);
                    let _ = futures::poll!(acc.as_mut());
                    drop(guard);
                    let admitted = acc.await;
                    let _ = tokio::time::timeout(Duration::from_secs(5), old_h).await;
                    let mut client = client;
                    match admitted {
                        Some(session) => {
                            let sv = session_val(&session);
                            let h = tokio::spawn(session.run(global.clone(), active_tx.clone()));
                            res = Val::L(vec![sv, read_open(&mut client).await]);
                            if let Some(z) = conns.insert((addr, role == Role::Active), (client, h)) {
                                zombies.push(z.0);
                            }
                        }
                        None => drop(client),
                    }
                }
            }
            9 => {
                // hard ResetPeer through the gRPC method: [9, addr, direction].  It ends every connection of
                // the neighbour; the model's operation is "the connection (addr, direction) ends", so the API
                // is used only when that is the neighbour's only connection (else the client closes it).
                use api::go_bgp_service_server::GoBgpService;
                let active = ol[2].int() == 0;
                if conns.contains_key(&(addr, !active)) {
                    if let Some((client, h)) = conns.remove(&(addr, active)) {
                        drop(client);
                        let _ = tokio::time::timeout(Duration::from_secs(5), h).await;
                    }
                } else {
                    let _ = svc
                        .reset_peer(tonic::Request::new(api::ResetPeerRequest {
                            address: addr.to_string(),
                            soft: false,
                            ..Default::default()
                        }))
                        .await;
                    if let Some((client, h)) = conns.remove(&(addr, active)) {
                        let _ = tokio::time::timeout(Duration::from_secs(5), h).await;
                        drop(client);
                    }
                }
            }
            t => panic!("verif: bad op tag {}", t),
        }
        let gr = global.read().await;
        out.push(Val::L(vec![res, peers_val(&gr)]));
    }
    Val::L(out)
}

fn run_accept_case(case: &Val) -> Val {
    // a runtime per case: dropping it ends every task the case left behind
    let rt = tokio::runtime::Builder::new_current_thread().enable_all().build().unwrap();
    let v = rt.block_on(run_accept_case_async(case));
    rt.shutdown_background();
    v
}

#[test]
fn verif_accept_cases() {
    val::run_cases(run_accept_case);
}
