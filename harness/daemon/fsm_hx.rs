// Correspondence harness for daemon/src/fsm.rs (properties C07, C08).
// Included as the body of `fsm::verif_hx` under cfg(all(test, osrg_rustybgp_verif)).
use super::*;

#[allow(dead_code)]
mod val {
    include!(concat!(env!("VERIF_HX_DIR"), "/common/val.rs"));
}
#[allow(dead_code)]
mod caps {
    include!(concat!(env!("VERIF_HX_DIR"), "/common/caps.rs"));
}
use caps::*;
use val::Val;

fn msg_of(v: &Val) -> bgp::Message {
    let l = v.list();
    match l[0].int() {
        1 => bgp::Message::Open(bgp::Open {
            as_number: l[1].u32(),
            router_id: l[2].u32(),
            holdtime: HoldTime::new(l[3].u16()).expect("generator sends 0 or >=3"),
            capability: caps_of(&l[4]),
        }),
        2 => bgp::Message::Update(bgp::Update::EndOfRib(Family::IPV4)),
        3 => bgp::Message::Notification(rustybgp_packet::Notification::from_notification(
            l[1].u8(),
            l[2].u8(),
            Vec::new(),
        )),
        4 => bgp::Message::Keepalive,
        5 => bgp::Message::RouteRefresh { family: fam_of(&l[1]) },
        t => panic!("verif: bad message tag {}", t),
    }
}

fn msg_val(m: &bgp::Message) -> Val {
    match m {
        bgp::Message::Open(o) => Val::L(vec![
            Val::n(1u8),
            Val::n(o.as_number),
            Val::n(o.router_id),
            Val::n(o.holdtime.seconds()),
            caps_val(&o.capability),
        ]),
        bgp::Message::Update(_) => Val::L(vec![Val::n(2u8)]),
        bgp::Message::Notification(n) => Val::L(vec![
            Val::n(3u8),
            Val::n(n.notification_code()),
            Val::n(n.notification_subcode()),
        ]),
        bgp::Message::Keepalive => Val::L(vec![Val::n(4u8)]),
        bgp::Message::RouteRefresh { family } => Val::L(vec![Val::n(5u8), fam_val(family)]),
    }
}

fn notif_pair(m: &bgp::Message) -> Val {
    match m {
        bgp::Message::Notification(n) => {
            Val::L(vec![Val::n(n.notification_code()), Val::n(n.notification_subcode())])
        }
        _ => Val::L(vec![Val::I(-2)]),
    }
}

fn input_of(v: &Val) -> Input {
    let l = v.list();
    match l[0].int() {
        0 => Input::Connected(l[1].bool()),
        1 => Input::MessageReceived(msg_of(&l[1])),
        2 => Input::KeepaliveTimerExpired,
        3 => Input::HoldTimerExpired,
        4 => Input::Disconnected,
        5 => Input::AdminShutdown,
        6 => Input::UpdateSent,
        t => panic!("verif: bad input tag {}", t),
    }
}

fn reason_val(r: &SessionDownReason) -> Val {
    match r {
        SessionDownReason::HoldTimerExpired => Val::L(vec![Val::n(0u8)]),
        SessionDownReason::RemoteNotification(m) => {
            let p = notif_pair(m);
            Val::L(vec![Val::n(1u8), p.at(0).clone(), p.at(1).clone()])
        }
        SessionDownReason::LocalNotification(m) => {
            let p = notif_pair(m);
            Val::L(vec![Val::n(2u8), p.at(0).clone(), p.at(1).clone()])
        }
        SessionDownReason::FsmError => Val::L(vec![Val::n(3u8)]),
        SessionDownReason::AdminShutdown => Val::L(vec![Val::n(4u8)]),
        SessionDownReason::IoError => Val::L(vec![Val::n(5u8)]),
    }
}

// The codec built by PeerCodec::negotiate is observed through the two
// capability lists it was built from (its own behaviour is property C16).
fn output_val(o: &Output, local_cap: &[Capability], last_open_caps: &[Capability]) -> Val {
    match o {
        Output::SendMessage(m) => Val::L(vec![Val::n(0u8), msg_val(m)]),
        Output::SetKeepaliveTimer(n) => Val::L(vec![Val::n(1u8), Val::n(*n)]),
        Output::SetHoldTimer(n) => Val::L(vec![Val::n(2u8), Val::n(*n)]),
        Output::SessionNegotiated(_) => {
            Val::L(vec![Val::n(3u8), caps_val(local_cap), caps_val(last_open_caps)])
        }
        Output::SessionEstablished {
            remote_asn,
            remote_id,
            remote_holdtime,
            remote_capabilities,
            effective_max,
        } => {
            let mut em: Vec<(u32, usize)> = effective_max
                .iter()
                .map(|(f, v)| ((((f.afi() as u32) << 16) | f.safi() as u32), *v))
                .collect();
            em.sort();
            Val::L(vec![
                Val::n(4u8),
                Val::n(*remote_asn),
                Val::n(*remote_id),
                Val::n(*remote_holdtime),
                caps_val(remote_capabilities),
                Val::L(em.iter().map(|(f, v)| Val::L(vec![Val::n(*f), Val::us(*v)])).collect()),
            ])
        }
        Output::SessionDown(r, n) => Val::L(vec![
            Val::n(5u8),
            reason_val(r),
            Val::opt(n.as_ref().map(notif_pair)),
        ]),
        Output::StateChanged(s) => Val::L(vec![Val::n(6u8), Val::n(u8::from(*s))]),
        Output::RouteRefresh(f) => Val::L(vec![Val::n(7u8), fam_val(f)]),
    }
}

fn role_of(v: &Val) -> Role {
    if v.int() == 0 { Role::Active } else { Role::Passive }
}
fn role_val(r: Role) -> Val {
    Val::n(if r == Role::Active { 0u8 } else { 1u8 })
}

// case = [lid, lasn, lcaps, lhold, expected, send_max, inputs]
pub(crate) fn run_fsm_case(case: &Val) -> Val {
    let l = case.list();
    let lcap = caps_of(&l[2]);
    let mut smax: FnvHashMap<Family, usize> = FnvHashMap::default();
    for p in l[5].list() {
        smax.insert(fam_of(p.at(0)), p.at(1).usize());
    }
    let mut fsm = PeerFsm::new(l[0].u32(), l[1].u32(), lcap.clone(), l[3].u64(), l[4].u32(), smax);
    let mut obs = Vec::new();
    // capability list of the connection in each slot as the model prints it
    let mut eff_cap: [Vec<Capability>; 2] = [lcap.clone(), lcap.clone()];
    for step in l[6].list() {
        let role = role_of(step.at(0));
        let input = input_of(step.at(1));
        let mut open_caps: Vec<Capability> = Vec::new();
        if let Input::MessageReceived(bgp::Message::Open(o)) = &input {
            open_caps = o.capability.clone();
        }
        let outs = fsm.process(role, input);
        let idx = if role == Role::Active { 0 } else { 1 };
        // the connection's own capability list is what it put in its OPEN
        for o in &outs {
            if let PeerFsmOutput::Connection(_, Output::SendMessage(bgp::Message::Open(op))) = o {
                eff_cap[idx] = op.capability.clone();
            }
        }
        let mut vs = Vec::new();
        for o in &outs {
            vs.push(match o {
                PeerFsmOutput::Connection(r, out) => Val::L(vec![
                    Val::n(0u8),
                    role_val(*r),
                    output_val(out, &eff_cap[idx], &open_caps),
                ]),
                PeerFsmOutput::CloseConnection => Val::L(vec![Val::n(1u8)]),
                PeerFsmOutput::StopActiveConnect => Val::L(vec![Val::n(2u8)]),
            });
        }
        obs.push(Val::L(vec![
            Val::L(vs),
            Val::n(u8::from(fsm.state(Role::Active))),
            Val::n(u8::from(fsm.state(Role::Passive))),
        ]));
    }
    Val::L(obs)
}

#[test]
fn verif_fsm_cases() {
    val::run_cases(run_fsm_case);
}
