// Prefix-limit counters of a live session across graceful restart (property C15):
// the real accept_connection() / PeerSession::run() over loopback TCP, the real
// TableManager and PeerContext timers, one neighbour with a prefix limit on IPv4.
// Body of `event::verif_hx::c15_glue`.  (Session plumbing after event_gr_hx.rs.)
//
// case = [limit, events]
//   events: [0, mode] up (mode 0 no GR, 1 GR, 2 GR + LLGR, 3 LLGR only) | [1, id, no_llgr] announce prefix id/2
//           with path id id%2 | [2, id] withdraw | [3] End-of-RIB | [4] TCP failure | [5] restart timer fires
//           | [6] LLGR timer fires
// observation per event: [live, counter (-1: no live session), prefixes the peer holds in the RIB,
//           route_stats received, [[id, stale, llgr_stale]..], closed_by_the_session]
use super::super::*;

#[allow(dead_code)]
mod val {
    include!(concat!(env!("VERIF_HX_DIR"), "/common/val.rs"));
}
use val::Val;

const FAM: Family = Family::IPV4;
const PEER_ASN: u32 = 65101;

fn net_of(n: u32) -> packet::Nlri {
    packet::Nlri::V4(packet::bgp::Ipv4Net {
        addr: std::net::Ipv4Addr::new(10, 1, n as u8, 0),
        mask: 24,
    })
}
fn net_code(n: &packet::Nlri) -> i128 {
    match n {
        packet::Nlri::V4(p) => p.addr.octets()[2] as i128,
        _ => -3,
    }
}

fn mk_global() -> GlobalHandle {
    let (tx, _rx) = mpsc::unbounded_channel();
    let (bfd_tx, _bfd_rx) = mpsc::unbounded_channel();
    let mut g = Global::new(tx, bfd_tx);
    g.asn = 65001;
    g.router_id = std::net::Ipv4Addr::new(1, 0, 0, 1);
    Arc::new(tokio::sync::RwLock::new(g))
}

fn route_attrs(generation: i128, no_llgr: bool) -> Arc<Vec<packet::Attribute>> {
    let mut comm: Vec<u8> = (0x0001_0000u32 | generation as u32).to_be_bytes().to_vec();
    if no_llgr {
        comm.extend_from_slice(&0xffff_0007u32.to_be_bytes());
    }
    let mut aspath = vec![2u8, 1u8];
    aspath.extend_from_slice(&PEER_ASN.to_be_bytes());
    Arc::new(vec![
        packet::Attribute::new_with_value(packet::Attribute::ORIGIN, 0).unwrap(),
        packet::Attribute::new_with_bin(packet::Attribute::AS_PATH, aspath).unwrap(),
        packet::Attribute::new_with_bin(packet::Attribute::COMMUNITY, comm).unwrap(),
    ])
}

fn caps_of(asn: u32, mode: i128) -> Vec<packet::Capability> {
    let mut c = vec![
        packet::Capability::MultiProtocol(FAM),
        packet::Capability::FourOctetAsNumber(asn),
        packet::Capability::AddPath(vec![(FAM, 3u8)]),
    ];
    if mode == 1 || mode == 2 {
        c.push(packet::Capability::GracefulRestart {
            flags: 0,
            restart_time: 120,
            families: vec![(FAM, 0u8)],
        });
    }
    if mode == 2 || mode == 3 {
        c.push(packet::Capability::LongLivedGracefulRestart(vec![(FAM, 0u8, 300)]));
    }
    c
}

async fn settle() {
    for _ in 0..50 {
        tokio::task::yield_now().await;
    }
}

/// the neighbour's end of one live session
struct Live {
    client: TcpStream,
    rxbuf: bytes::BytesMut,
    peer_codec: bgp::PeerCodec,
    counter: Arc<MessageCounter>,
    base: u64,
    sent: u64,
    handle: tokio::task::JoinHandle<()>,
    generation: i128,
    limit_ctr: Option<Arc<AtomicU64>>,
}

impl Live {
    async fn send(&mut self, msgs: &[bgp::Message]) {
        use tokio::io::AsyncWriteExt;
        let mut buf = bytes::BytesMut::new();
        for m in msgs {
            self.sent += self.peer_codec.encode_to(m, &mut buf).expect("verif: encode") as u64;
        }
        self.client.write_all(&buf).await.expect("verif: write");
    }
    /// until the session task has taken everything sent so far off the wire and is idle again
    async fn sync(&self) {
        let mut spins = 0u32;
        while self.counter.total.load(Ordering::Relaxed) < self.base + self.sent {
            tokio::time::sleep(Duration::from_millis(1)).await;
            spins += 1;
            assert!(spins < 5000, "verif: the session did not read the messages");
        }
        settle().await;
    }
    /// next message from the session, None when it closed the socket
    async fn recv(&mut self) -> Option<bgp::Message> {
        use tokio::io::AsyncReadExt;
        loop {
            match self.peer_codec.try_parse(&mut self.rxbuf) {
                Ok(Some(pm)) => {
                    let msgs: Vec<bgp::Message> = bgp::validate_message(pm, true)
                        .unwrap_or_else(|_| panic!("verif: neighbour-side validation failed"))
                        .into_iter()
                        .collect();
                    if let Some(m) = msgs.into_iter().next() {
                        return Some(m);
                    }
                }
                Ok(None) => {}
                Err(_) => panic!("verif: neighbour-side parse error"),
            }
            let n = tokio::time::timeout(Duration::from_secs(10), self.client.read_buf(&mut self.rxbuf))
                .await
                .expect("verif: timeout reading from the session")
                .unwrap_or(0);
            if n == 0 {
                return None;
            }
        }
    }
    async fn finished(self) {
        let Live { client, handle, .. } = self;
        tokio::time::timeout(Duration::from_secs(15), handle)
            .await
            .expect("verif: the session did not end")
            .expect("verif: session task panicked");
        drop(client);
        settle().await;
    }
}

/// A new connection of the neighbour, taken through the real accept_connection() (which builds
/// the PeerSession from the Peer record, registers its close channel with the ConnArbiter and
/// refuses an admin-down peer or a second connection) and run by the real PeerSession::run().
/// Only the local capabilities of the case are put into the Peer record first (they differ from
/// session to session), together with a PeerFsm that sends them.
async fn start_session(
    global: &GlobalHandle,
    tables: &TableHandle,
    addr: IpAddr,
    local_cap: Vec<packet::Capability>,
    active_tx: &mpsc::UnboundedSender<TcpStream>,
) -> (TcpStream, Option<(Arc<MessageCounter>, tokio::task::JoinHandle<()>, Option<Arc<AtomicU64>>)>) {
    let listener = TcpListener::bind("127.0.0.1:0").await.unwrap();
    let laddr = listener.local_addr().unwrap();
    let (client, server) = tokio::join!(TcpStream::connect(laddr), listener.accept());
    let client = client.unwrap();
    let server = server.unwrap().0;
    // no Nagle / delayed-ACK stalls (40 ms each) on the loopback pair
    client.set_nodelay(true).unwrap();
    server.set_nodelay(true).unwrap();
    {
        let mut g = global.write().await;
        let peer = g.peers.get_mut(&addr).unwrap();
        let live = {
            let ctx = peer.context.lock().unwrap();
            let arb = ctx.conn_arbiter.lock().unwrap();
            arb.passive_close_tx.is_some()
        };
        if !live {
            peer.config.local_cap = local_cap.clone();
            let fsm = crate::fsm::PeerFsm::new(
                u32::from(std::net::Ipv4Addr::new(1, 0, 0, 1)),
                65001,
                local_cap,
                90,
                0,
                FnvHashMap::default(),
            );
            peer.context.lock().unwrap().conn_arbiter =
                Arc::new(std::sync::Mutex::new(ConnArbiter::new(fsm)));
        }
    }
    match accept_connection(global, tables, server, crate::fsm::Role::Passive).await {
        None => (client, None),
        Some(s) => {
            let counter = Arc::clone(&s.counter_rx);
            // the live session's prefix-limit counter of the family
            let limit_ctr = s.prefix_counters.get(&FAM).map(|(_, c)| Arc::clone(c));
            let handle = tokio::spawn(s.run(global.clone(), active_tx.clone()));
            (client, Some((counter, handle, limit_ctr)))
        }
    }
}


fn observe(tables: &TableHandle, addr: IpAddr, live: Option<&Live>, closed: bool) -> Val {
    let mut routes: Vec<(i128, i128, i128)> = Vec::new();
    let mut nets: Vec<i128> = Vec::new();
    for d in tables.collect_paths(table::TableQuery::AdjIn(addr), FAM, vec![], true) {
        nets.push(net_code(&d.net));
        for p in d.paths {
            routes.push((
                net_code(&d.net) * 2 + p.remote_path_id as i128,
                p.source.is_stale() as i128,
                p.source.is_llgr_stale() as i128,
            ));
        }
    }
    routes.sort();
    nets.sort();
    nets.dedup();
    let received = tables
        .collect_peer_stats(&[addr])
        .get(&addr)
        .and_then(|m| m.get(&FAM))
        .map_or(0, |s| s.received);
    let ctr = match live.and_then(|l| l.limit_ctr.as_ref()) {
        Some(c) => Val::I(c.load(Ordering::Relaxed) as i128),
        None => Val::I(-1),
    };
    Val::L(vec![
        Val::b(live.is_some()),
        ctr,
        Val::us(nets.len()),
        Val::I(received as i128),
        Val::L(routes
            .into_iter()
            .map(|(a, b, c)| Val::L(vec![Val::I(a), Val::I(b), Val::I(c)]))
            .collect()),
        Val::b(closed),
    ])
}

async fn run_limit_case(l: &[Val]) -> Val {
    let global = mk_global();
    let tables: TableHandle = Arc::new(TableManager::new(2));
    let addr = IpAddr::V4(std::net::Ipv4Addr::LOCALHOST);
    let (active_tx, _active_rx) = mpsc::unbounded_channel::<TcpStream>();
    {
        let mut limits: FnvHashMap<Family, u32> = FnvHashMap::default();
        limits.insert(FAM, l[0].u32());
        let params = PeerParams {
            remote_addr: addr,
            remote_port: Global::BGP_PORT,
            expected_remote_asn: 0,
            local_asn: 0,
            passive: true,
            rs_client: false,
            route_reflector: RouteReflectorConfig::default(),
            delete_on_disconnected: false,
            admin_down: false,
            state: SessionState::Idle,
            holdtime: PeerParams::DEFAULT_HOLD_TIME,
            connect_retry_time: PeerParams::DEFAULT_CONNECT_RETRY_TIME,
            multihop_ttl: None,
            ttl_security: None,
            password: None,
            families: FnvHashMap::default(),
            send_max: FnvHashMap::default(),
            prefix_limits: limits,
            graceful_restart: None,
            llgr: None,
            bfd_config: None,
            neighbor_interface: None,
            bind_interface: None,
            export_policy: None,
        };
        global.write().await.add_peer(params, None).expect("add_peer");
    }
    let context = Arc::clone(&global.read().await.peers.get(&addr).unwrap().context);
    let mut live: Option<Live> = None;
    let mut generation: i128 = 0;
    let mut obs = Vec::new();
    for ev in l[1].list() {
        let e = ev.list();
        let mut closed = false;
        match e[0].int() {
            0 => {
                if live.is_none() {
                    generation += 1;
                    let mode = e[1].int();
                    let local_cap = caps_of(65001, mode);
                    let remote_cap = caps_of(PEER_ASN, mode);
                    let (client, started) =
                        start_session(&global, &tables, addr, local_cap, &active_tx).await;
                    let (counter, handle, limit_ctr) = started.expect("verif: connection refused");
                    let base = counter.total.load(Ordering::Relaxed);
                    let mut lv = Live {
                        client,
                        rxbuf: bytes::BytesMut::new(),
                        peer_codec: bgp::PeerCodec::new(),
                        counter,
                        base,
                        sent: 0,
                        handle,
                        generation,
                        limit_ctr,
                    };
                    let their_open = loop {
                        match lv.recv().await {
                            Some(bgp::Message::Open(o)) => break o,
                            Some(_) => {}
                            None => panic!("verif: the session closed before its OPEN"),
                        }
                    };
                    let open = bgp::Message::Open(bgp::Open {
                        as_number: PEER_ASN,
                        router_id: u32::from(std::net::Ipv4Addr::new(192, 0, 2, 1)),
                        holdtime: HoldTime::new(90).expect("hold time"),
                        capability: remote_cap.clone(),
                    });
                    lv.send(&[open, bgp::Message::Keepalive]).await;
                    lv.peer_codec = bgp::PeerCodec::negotiate(&remote_cap, &their_open.capability);
                    // Established is over once the End-of-RIB of the family has been sent to us
                    loop {
                        match lv.recv().await {
                            Some(bgp::Message::Update(bgp::Update::EndOfRib(_))) => break,
                            Some(_) => {}
                            None => panic!("verif: the session closed during establishment"),
                        }
                    }
                    lv.sync().await;
                    live = Some(lv);
                }
            }
            1 | 2 | 3 => {
                if let Some(lv) = live.as_mut() {
                    let m = match e[0].int() {
                        1 => {
                            let id = e[1].u32();
                            bgp::Message::Update(bgp::Update::Reach {
                                family: FAM,
                                entries: vec![packet::PathNlri { path_id: id % 2, nlri: net_of(id / 2) }],
                                nexthop: Some(bgp::Nexthop::V4(std::net::Ipv4Addr::new(192, 0, 2, 1))),
                                attr: route_attrs(lv.generation, e[2].bool()),
                            })
                        }
                        2 => {
                            let id = e[1].u32();
                            bgp::Message::Update(bgp::Update::Unreach {
                                family: FAM,
                                entries: vec![packet::PathNlri { path_id: id % 2, nlri: net_of(id / 2) }],
                            })
                        }
                        _ => bgp::Message::eor(FAM),
                    };
                    // The KEEPALIVE behind the message is counted by the session only after the message
                    // has been handled and the session goes on; a session that refuses the prefix
                    // terminates before it parses the KEEPALIVE.
                    lv.send(&[m, bgp::Message::Keepalive]).await;
                    let mut spins = 0u32;
                    loop {
                        if lv.handle.is_finished() {
                            break;
                        }
                        if lv.counter.total.load(Ordering::Relaxed) >= lv.base + lv.sent {
                            settle().await;
                            break;
                        }
                        tokio::time::sleep(Duration::from_millis(1)).await;
                        spins += 1;
                        assert!(spins < 10000, "verif: the session neither took the message nor ended");
                    }
                    if lv.handle.is_finished() {
                        closed = true;
                        let lv = live.take().unwrap();
                        lv.finished().await;
                    }
                }
            }
            4 => {
                if let Some(lv) = live.take() {
                    let Live { client, handle, .. } = lv;
                    drop(client);
                    tokio::time::timeout(Duration::from_secs(15), handle)
                        .await
                        .expect("verif: the session did not end")
                        .expect("verif: session task panicked");
                    settle().await;
                }
            }
            5 => {
                let tx = {
                    let mut ctx = context.lock().unwrap();
                    if ctx.gr_restart_timer.as_ref().is_some_and(|t| !t.is_closed()) {
                        ctx.gr_restart_timer.take()
                    } else {
                        None
                    }
                };
                if let Some(tx) = tx {
                    let _ = tx.send(());
                }
            }
            6 => {
                let tx = {
                    let mut ctx = context.lock().unwrap();
                    if ctx.llgr_family_timers.get(&FAM).is_some_and(|t| !t.is_closed()) {
                        ctx.llgr_family_timers.remove(&FAM)
                    } else {
                        None
                    }
                };
                if let Some(tx) = tx {
                    let _ = tx.send(());
                }
            }
            t => panic!("verif: bad limit event {}", t),
        }
        settle().await;
        tokio::time::sleep(Duration::from_millis(2)).await;
        settle().await;
        obs.push(observe(&tables, addr, live.as_ref(), closed));
    }
    if let Some(lv) = live.take() {
        let Live { client, handle, .. } = lv;
        drop(client);
        let _ = tokio::time::timeout(Duration::from_secs(15), handle).await;
    }
    Val::L(obs)
}

fn run_case(case: &Val) -> Val {
    let l = case.list();
    let rt = tokio::runtime::Builder::new_current_thread().enable_all().build().unwrap();
    rt.block_on(run_limit_case(l))
}

#[test]
fn verif_event_c15_cases() {
    val::run_cases(run_case);
}
