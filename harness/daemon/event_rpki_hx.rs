// Correspondence harness for property C12, "the validation state used by policy".
// Included as the body of `event::verif_hx_rpki` under cfg(all(test, osrg_rustybgp_verif)).
//
// Drives the two places where the daemon decides whether policy evaluation gets the RpkiTable:
//   import: the real TableManager::apply_import on TableManager::import_policy
//   export: the real PeerSession::handle_prefix_update (per-peer assignment, else the global
//           export assignment) fed with the NlriChange the real TableManager::insert_route emits
// with assignments produced by histories of the real PolicyTable operations
// (add_assignment / set_policy_assignment / delete_policy_assignment / build_assignment(existing) /
// without_policies), stored as event::Global::{add,delete}_policy_assignment store them.
//
//   case  = [vrps, steps, routes]
//   vrps  = [[net, maxlen, asn], ...]         net = [4|6, [octets], mask]
//   step  = [slot, kind, [policy index, ...]]
//           slot 0 global import, 1 global export, 2 per-peer export (session B)
//           kind 0 add (accumulate), 1 set (replace), 2 delete the named policies, 3 delete all
//           policies 0,1,2 = one statement `rpki not-found|valid|invalid -> accept`;
//                    3,4   = one statement without an rpki condition that matches no generated route
//           every assignment has default action reject
//   route = [net, local_asn, [[code, [bytes]], ...]]     distinct prefixes
//   observation = [[slot_0, slot_1, slot_2], [ok per step], [[imp, exp_a, exp_b] per route]]
//     slot  = [] | [[needs_rpki, [policy index, ...]]]
//     imp   = 1 when apply_import does not filter the route
//     exp_a = 1 when session A (no per-peer assignment) advertises the route, exp_b for session B
use super::*;
use std::net::{Ipv4Addr, Ipv6Addr};

#[allow(dead_code)]
mod val {
    include!(concat!(env!("VERIF_HX_DIR"), "/common/val.rs"));
}
use val::Val;

const POLICY_NAMES: [&str; 5] = ["rov-notfound", "rov-valid", "rov-invalid", "plain-med", "plain-lp"];

fn hx_addr(fam: i128, bytes: &[u8]) -> IpAddr {
    if fam == 4 {
        let mut o = [0u8; 4];
        o.copy_from_slice(bytes);
        IpAddr::V4(Ipv4Addr::from(o))
    } else {
        let mut o = [0u8; 16];
        o.copy_from_slice(bytes);
        IpAddr::V6(Ipv6Addr::from(o))
    }
}

fn policy_table() -> table::PolicyTable {
    let mut pt = table::PolicyTable::new();
    let conds = [
        table::ConditionConfig::Rpki(table::RpkiValidationState::NotFound),
        table::ConditionConfig::Rpki(table::RpkiValidationState::Valid),
        table::ConditionConfig::Rpki(table::RpkiValidationState::Invalid),
        table::ConditionConfig::MedEq(4242),
        table::ConditionConfig::LocalPrefEq(4242),
    ];
    for (k, c) in conds.into_iter().enumerate() {
        let sname = format!("s-{}", POLICY_NAMES[k]);
        pt.add_statement(&sname, vec![c], Some(table::Disposition::Accept), table::Actions::default())
            .ok()
            .expect("add_statement");
        pt.add_policy(POLICY_NAMES[k], vec![sname]).ok().expect("add_policy");
    }
    pt
}

fn slot_val(a: &Option<Arc<table::PolicyAssignment>>) -> Val {
    Val::opt(a.as_ref().map(|a| {
        Val::L(vec![
            Val::b(a.needs_rpki),
            Val::L(
                a.policies
                    .iter()
                    .map(|p| Val::us(POLICY_NAMES.iter().position(|n| *n == p.name.as_ref()).unwrap()))
                    .collect(),
            ),
        ])
    }))
}

fn test_session(raddr: IpAddr, tables: TableHandle) -> PeerSession {
    let fsm = crate::fsm::PeerFsm::new(1, 65001, vec![], 90, 0, FnvHashMap::default());
    let conn_arbiter = Arc::new(std::sync::Mutex::new(ConnArbiter::new(fsm)));
    let context = Arc::new(std::sync::Mutex::new(PeerContext {
        conn_arbiter,
        active_connect_cancel_tx: None,
        active_connect_join_handle: None,
        gr_state: crate::gr::GrState::new(),
        gr_restart_timer: None,
        llgr_family_timers: FnvHashMap::default(),
        rtc_state: crate::rtc::RtcState::new(),
        rtc_eor_timer: None,
    }));
    let mut s = PeerSession::new_for_test(raddr, context, tables);
    for family in [Family::IPV4, Family::IPV6] {
        s.codec.set_family(family, bgp::FamilyState { addpath_rx: false, addpath_tx: false });
        s.pending.insert(family, crate::peer_tx::PendingTx::new(false));
        s.effective_max.insert(family, 1);
    }
    s.export_map = ExportMap::new([]);
    s
}

fn run_async(case: &Val) -> Val {
    let tables: TableHandle = Arc::new(crate::table_manager::TableManager::new(1));
    let cache = Arc::new(IpAddr::V4(Ipv4Addr::new(192, 0, 2, 1)));
    let mut v = Vec::new();
    for r in case.at(0).list() {
        let n = r.at(0);
        v.push((
            packet::IpNet::new(hx_addr(n.at(0).int(), &n.at(1).bytes()), n.at(2).u8()),
            Arc::new(table::Roa::new(r.at(1).u8(), r.at(2).u32(), cache.clone())),
        ));
    }
    tables.rpki_insert(v);

    // ---- the assignment history
    let mut pt = policy_table();
    let mut peer_slot: Option<Arc<table::PolicyAssignment>> = None;
    let mut oks = Vec::new();
    for st in case.at(1).list() {
        let slot = st.at(0).int();
        let kind = st.at(1).int();
        let names: Vec<String> = st.at(2).list().iter().map(|i| POLICY_NAMES[i.usize()].to_string()).collect();
        let dir = if slot == 0 { table::PolicyDirection::Import } else { table::PolicyDirection::Export };
        let ok = if slot < 2 {
            // event::Global::add_policy_assignment / delete_policy_assignment / set (grpc) for the global RIB
            let r: Result<Option<Arc<table::PolicyAssignment>>, table::TableError> = match kind {
                0 => pt.add_assignment("global", dir, table::Disposition::Reject, names).map(|(_, a)| Some(a)),
                1 => pt.set_policy_assignment("global", dir, table::Disposition::Reject, names).map(Some),
                2 => pt.delete_policy_assignment(dir, &names, false),
                _ => pt.delete_policy_assignment(dir, &names, true),
            };
            match r {
                Ok(a) => {
                    if slot == 0 {
                        tables.import_policy.store(a);
                    } else {
                        tables.export_policy.store(a);
                    }
                    true
                }
                Err(_) => false,
            }
        } else {
            // the per-peer export assignment of event::Global::{add,delete}_policy_assignment
            match kind {
                0 => match pt.build_assignment(
                    peer_slot.as_deref(),
                    "10.9.9.2",
                    table::PolicyDirection::Export,
                    table::Disposition::Reject,
                    names,
                ) {
                    Ok(a) => {
                        peer_slot = Some(a);
                        true
                    }
                    Err(_) => false,
                },
                2 => match peer_slot.as_deref() {
                    Some(old) => {
                        peer_slot = Some(old.without_policies(&names));
                        true
                    }
                    None => false,
                },
                _ => {
                    peer_slot = None;
                    true
                }
            }
        };
        oks.push(Val::b(ok));
    }
    let slots = Val::L(vec![
        slot_val(&tables.import_policy.load_full()),
        slot_val(&tables.export_policy.load_full()),
        slot_val(&peer_slot),
    ]);

    // ---- two established sessions towards which the routes are exported
    let addr_a = IpAddr::V4(Ipv4Addr::new(10, 9, 9, 1));
    let addr_b = IpAddr::V4(Ipv4Addr::new(10, 9, 9, 2));
    let mut rx_a = tables.register_peer(addr_a, FnvHashSet::default(), |_| {});
    let mut rx_b = tables.register_peer(addr_b, FnvHashSet::default(), |_| {});
    let mut sa = test_session(addr_a, tables.clone());
    let mut sb = test_session(addr_b, tables.clone());
    sb.state.export_policy.store(peer_slot.clone());

    let mut robs = Vec::new();
    for (i, r) in case.at(2).list().iter().enumerate() {
        let n = r.at(0);
        let (family, nlri, nh) = match hx_addr(n.at(0).int(), &n.at(1).bytes()) {
            IpAddr::V4(addr) => (
                Family::IPV4,
                packet::Nlri::V4(packet::bgp::Ipv4Net { addr, mask: n.at(2).u8() }),
                bgp::Nexthop::V4(Ipv4Addr::new(10, 8, 8, 8)),
            ),
            IpAddr::V6(addr) => (
                Family::IPV6,
                packet::Nlri::V6(packet::bgp::Ipv6Net { addr, mask: n.at(2).u8() }),
                bgp::Nexthop::V6(Ipv6Addr::new(0x2001, 0xdb8, 0, 0, 0, 0, 0, 8)),
            ),
        };
        let source = Arc::new(table::Source::new(
            IpAddr::V4(Ipv4Addr::new(10, 0, (i / 250) as u8, (i % 250) as u8 + 1)),
            IpAddr::V4(Ipv4Addr::new(10, 0, 255, 254)),
            64999,
            r.at(1).u32(),
            Ipv4Addr::new(1, 1, 1, 1),
            table::PeerRole::Ebgp,
        ));
        let mut attrs = Vec::new();
        for a in r.at(2).list() {
            let code = a.at(0).u8();
            if code == packet::Attribute::AS_PATH {
                attrs.push(packet::Attribute::new_with_bin(code, a.at(1).bytes()).expect("as_path"));
            } else {
                attrs.push(packet::Attribute::new_with_value(code, 0).expect("value attribute"));
            }
        }
        let attrs = Arc::new(attrs);
        // import: the real gate
        let mut nh_i = Some(nh);
        let pol = tables.import_policy.load_full();
        let (filtered, _) = tables.apply_import(pol.as_deref(), &source, &nlri, &attrs, &mut nh_i);
        // export: the route enters the Loc-RIB (the import assignment must not hide it: it is
        // lifted for the insertion and restored) and the change goes to both sessions
        tables.import_policy.store(None);
        tables.insert_route(source, family, packet::PathNlri::new(nlri.clone()), Some(nh), attrs, None, 0);
        tables.import_policy.store(pol);
        let mut exported = [false, false];
        for (k, (rx, s)) in [(&mut rx_a, &mut sa), (&mut rx_b, &mut sb)].into_iter().enumerate() {
            while let Ok(ev) = rx.try_recv() {
                if let ToPeerEvent::NlriChange(c) = ev {
                    s.handle_prefix_update(c);
                }
            }
            for m in s.pending.get_mut(&family).unwrap().drain_messages(family) {
                if let bgp::Message::Update(bgp::Update::Reach { entries, .. }) = m {
                    if entries.iter().any(|e| e.nlri == nlri) {
                        exported[k] = true;
                    }
                }
            }
        }
        robs.push(Val::L(vec![Val::b(!filtered), Val::b(exported[0]), Val::b(exported[1])]));
    }
    Val::L(vec![slots, Val::L(oks), Val::L(robs)])
}

fn run_case(case: &Val) -> Val {
    let rt = tokio::runtime::Builder::new_current_thread().enable_all().build().expect("runtime");
    rt.block_on(async { run_async(case) })
}

#[test]
fn verif_rpki_policy_cases() {
    val::run_cases(run_case);
}
