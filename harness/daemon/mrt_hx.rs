// Correspondence harness for the daemon-side MRT code of daemon/src/mrt.rs
// (property C19): adj_rib_in_to_mrt and dump_table.  Included as the body of
// `mrt::verif_hx` under cfg(all(test, osrg_rustybgp_verif)).
use super::*;

#[allow(dead_code)]
mod val {
    include!(concat!(env!("VERIF_HX_DIR"), "/common/val.rs"));
}
#[allow(dead_code)]
mod caps {
    include!(concat!(env!("VERIF_HX_DIR"), "/common/caps.rs"));
}
#[allow(dead_code)]
mod mon {
    include!(concat!(env!("VERIF_HX_DIR"), "/common/mon.rs"));
}
use val::Val;

use rustybgp_table as table;
use std::sync::Arc;

fn source_of(v: &Val) -> Arc<table::Source> {
    let l = v.list();
    Arc::new(table::Source::new(
        mon::ip_of(&l[0]),
        mon::ip_of(&l[1]),
        l[2].u32(),
        l[3].u32(),
        mon::v4_of(&l[4]),
        table::PeerRole::Ebgp,
    ))
}

fn change_of(v: &Val) -> AdjRibInChange {
    let l = v.list();
    AdjRibInChange {
        source: source_of(&l[0]),
        family: mon::fam_of(&l[1]),
        addpath: l[2].bool(),
        nlris: mon::entries_of(&l[3]),
        attrs: l[4].list().first().map(mon::attrs_of),
        nexthop: mon::nexthop_of(&l[5]),
        timestamp: l[6].u32(),
    }
}

fn now_secs() -> u32 {
    std::time::SystemTime::now()
        .duration_since(std::time::SystemTime::UNIX_EPOCH)
        .unwrap()
        .as_secs() as u32
}

fn changes_val(cs: &[table::NlriChange]) -> (Val, Val) {
    let mut desc = Vec::new();
    let mut side = Vec::new();
    for c in cs {
        desc.push(Val::L(vec![
            mon::nlri_val(&c.net),
            Val::L(
                c.current_paths
                    .iter()
                    .map(|p| {
                        Val::L(vec![
                            mon::ip_val(&p.source.remote_addr),
                            Val::n(p.source.router_id),
                            Val::n(p.source.remote_asn),
                            mon::nexthop_val(&p.nexthop),
                        ])
                    })
                    .collect(),
            ),
        ]));
        side.push(Val::L(vec![
            Val::from_bytes(&c.net.encode_to_bytes()),
            Val::L(c.current_paths.iter().map(|p| mon::attrs_val(&p.attr)).collect()),
        ]));
    }
    (Val::L(desc), Val::L(side))
}

fn run_case(case: &Val) -> Val {
    let l = case.list();
    match l[0].int() {
        0 => {
            let change = change_of(&l[1]);
            let msg = adj_rib_in_to_mrt(&change);
            let mrt::Message::Mp { body, addpath, .. } = &msg;
            let blob = mon::ref_encode(body, *addpath);
            let desc = mon::msg_val(body);
            let ap = *addpath;
            let mut codec = mrt::MrtCodec::new();
            let mut buf = bytes::BytesMut::new();
            let t0 = now_secs();
            codec.encode(&msg, &mut buf).expect("verif: mrt encode");
            let t1 = now_secs();
            let mut ts_ok = !buf.is_empty();
            let mut p = 0;
            while p < buf.len() {
                if p + 12 > buf.len() {
                    ts_ok = false;
                    break;
                }
                let ts = u32::from_be_bytes([buf[p], buf[p + 1], buf[p + 2], buf[p + 3]]);
                if ts < t0 || ts > t1 {
                    ts_ok = false;
                }
                for k in 0..4 {
                    buf[p + k] = 0;
                }
                p += 12 + u32::from_be_bytes([buf[p + 8], buf[p + 9], buf[p + 10], buf[p + 11]]) as usize;
            }
            Val::L(vec![Val::from_bytes(&buf), Val::from_bytes(&blob), desc, Val::b(ap), Val::b(ts_ok)])
        }
        1 => {
            // [1, router_id, [[source, family, nlri, path_id, nexthop, attrs]...]]
            let tables: TableHandle = Arc::new(crate::table_manager::TableManager::new(1));
            for r in l[2].list() {
                let r = r.list();
                tables.insert_route(
                    source_of(&r[0]),
                    mon::fam_of(&r[1]),
                    rustybgp_packet::PathNlri {
                        path_id: r[3].u32(),
                        nlri: mon::nlri_of(&r[2]),
                    },
                    mon::nexthop_of(&r[4]),
                    mon::attrs_of(&r[5]),
                    None,
                    0,
                );
            }
            let (d4, s4) = changes_val(&tables.collect_loc_rib_paths(Family::IPV4));
            let (d6, s6) = changes_val(&tables.collect_loc_rib_paths(Family::IPV6));
            let path = format!("{}.dump", std::env::var("VERIF_OUT").expect("VERIF_OUT"));
            let rt = tokio::runtime::Builder::new_current_thread()
                .enable_all()
                .build()
                .unwrap();
            let t0 = now_secs();
            rt.block_on(async {
                let mut file = tokio::fs::File::create(&path).await.unwrap();
                dump_table(mon::v4_of(&l[1]), &tables, &mut file).await.unwrap();
                file.flush().await.unwrap();
            });
            let t1 = now_secs();
            let bytes = std::fs::read(&path).unwrap();
            let _ = std::fs::remove_file(&path);
            // one wall-clock timestamp is used for every record and entry of a dump: it is
            // read from the first record, checked against the call window, and handed to the model
            let ts = if bytes.len() >= 4 {
                u32::from_be_bytes([bytes[0], bytes[1], bytes[2], bytes[3]])
            } else {
                0
            };
            Val::L(vec![
                Val::from_bytes(&bytes),
                Val::n(ts),
                Val::b(ts >= t0 && ts <= t1),
                d4,
                d6,
                s4,
                s6,
            ])
        }
        t => panic!("verif: bad case tag {}", t),
    }
}

#[test]
fn verif_mrt_cases() {
    val::run_cases(run_case);
}
