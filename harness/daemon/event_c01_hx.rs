// Property C01: session-level correspondence harness.
//
// A REAL `PeerSession` (built the way `accept_connection` builds it, over a loopback TCP
// pair) attached to a REAL one-shard `TableManager`:
//   table operations      TableManager::{insert_route, remove_route, drop_families, mark_llgr_stale}
//   Register              PeerSession::on_established   (initial dump + register_peer)
//   Deliver               PeerSession::handle_prefix_update on the oldest queued ToPeerEvent::NlriChange
//   Refresh               PeerSession::do_route_refresh
//   Flush                 PeerSession::flush_tx on the socket; the bytes are read from the other end
//                         of the loopback pair and decoded by an independent peer-side
//                         `PeerCodec` (try_parse + validate_message) into the mirror Adj-RIB-In
//   final reference       a second `on_established` of the same session (brand-new session, same
//                         parameters), flushed and decoded the same way
// Only the scheduling glue lives here: the session's event channel is pumped into a local FIFO
// after every table operation (a batch of changes of one operation is sorted by prefix; the
// real order inside a batch is hash-map order), a "spy" registration on the shard reports every
// change the table emits.
//
// Included as `mod c01` from event_hx.rs (body of `mod verif_hx` in event/mod.rs).
use super::super::*;
#[allow(dead_code)]
mod val {
    include!(concat!(env!("VERIF_HX_DIR"), "/common/val.rs"));
}
use std::collections::{BTreeMap, VecDeque};
use tokio::io::AsyncReadExt;
use val::Val;

const FAM: Family = Family::IPV4;

fn net_of(k: u32) -> packet::Nlri {
    format!("10.0.{}.0/24", k).parse().unwrap()
}
fn net_idx(n: &packet::Nlri) -> u32 {
    match n {
        packet::Nlri::V4(p) => p.addr.octets()[2] as u32,
        _ => panic!("verif: unexpected NLRI kind"),
    }
}
fn role_of(r: u32) -> PeerRole {
    match r {
        0 => PeerRole::Ebgp,
        1 => PeerRole::RsClient,
        2 => PeerRole::Ibgp,
        3 => PeerRole::IbgpRrClient,
        _ => PeerRole::ConfedEbgp,
    }
}
fn addr_of(a: u32) -> IpAddr {
    IpAddr::V4(Ipv4Addr::new(10, 1, 0, a as u8))
}
const BAD_NH: Ipv4Addr = Ipv4Addr::new(10, 2, 9, 9);

// same universe as export_c01_hx.rs, plus an (empty) AS_PATH so that the peer-side
// validation accepts the UPDATE, and MED 77 on routes the import policy must reject
fn attrs_of(src: u32, tok: u32, filtered: bool) -> Arc<Vec<packet::Attribute>> {
    let mut v = vec![
        packet::Attribute::new_with_value(packet::Attribute::ORIGIN, if tok == 3 { 2 } else { 0 })
            .unwrap(),
        bgp::Attribute::empty_as_path(),
    ];
    if filtered {
        v.push(packet::Attribute::new_with_value(packet::Attribute::MULTI_EXIT_DESC, 77).unwrap());
    }
    v.push(
        packet::Attribute::new_with_value(packet::Attribute::LOCAL_PREF, 200 - 10 * tok - src)
            .unwrap(),
    );
    v.push(
        packet::Attribute::new_with_bin(
            packet::Attribute::COMMUNITY,
            [(0x0001_0000u32 | tok).to_be_bytes(), (0x0002_0000u32 | src).to_be_bytes()].concat(),
        )
        .unwrap(),
    );
    Arc::new(v)
}

fn decode(attr: &Arc<Vec<packet::Attribute>>) -> (u32, u32, u32) {
    let (mut src, mut tok, mut llgr) = (999u32, 999u32, 0u32);
    if let Some(bin) = attr
        .iter()
        .find(|a| a.code() == packet::Attribute::COMMUNITY)
        .and_then(|a| a.binary())
    {
        for c in bin.chunks(4) {
            let v = u32::from_be_bytes([c[0], c[1], c[2], c[3]]);
            if v == 0xffff_0006 {
                llgr = 1;
            } else if v >> 16 == 1 {
                tok = v & 0xffff;
            } else if v >> 16 == 2 {
                src = v & 0xffff;
            } else if v == 0x0003_0001 {
                tok += 100; // tagged by export policy 1 (the token community precedes it)
            }
        }
    }
    (src, tok, llgr)
}

type Route = (Arc<Vec<packet::Attribute>>, Option<bgp::Nexthop>);
type Mirror = BTreeMap<(u32, u32), Route>;

fn apply_msg(m: &bgp::Message, mirror: &mut Mirror, un: &mut Vec<Vec<u32>>, re: &mut Vec<Vec<u32>>, eor: &mut Vec<u32>) {
    match m {
        bgp::Message::Update(bgp::Update::Unreach { entries, .. }) => {
            for e in entries {
                let k = (net_idx(&e.nlri), e.path_id);
                mirror.remove(&k);
                un.push(vec![k.0, k.1]);
            }
        }
        bgp::Message::Update(bgp::Update::Reach {
            entries,
            nexthop,
            attr,
            ..
        }) => {
            for e in entries {
                let k = (net_idx(&e.nlri), e.path_id);
                mirror.insert(k, (Arc::clone(attr), *nexthop));
                let (s, t, l) = decode(attr);
                re.push(vec![k.0, k.1, s, t, l]);
            }
        }
        bgp::Message::Update(bgp::Update::EndOfRib(_)) => eor.push(re.len() as u32),
        bgp::Message::Keepalive => {}
        _ => panic!("verif: unexpected message on the wire"),
    }
}

fn rows(r: &[Vec<u32>]) -> Val {
    Val::L(r.iter().map(|x| Val::L(x.iter().map(|y| Val::n(*y)).collect())).collect())
}
fn mirror_rows(m: &Mirror) -> Val {
    let mut r: Vec<Vec<u32>> = m
        .iter()
        .map(|(k, (a, _))| {
            let (s, t, l) = decode(a);
            vec![k.0, k.1, s, t, l]
        })
        .collect();
    r.sort();
    rows(&r)
}

fn peer_params(remote_addr: IpAddr) -> PeerParams {
    PeerParams {
        remote_addr,
        remote_port: Global::BGP_PORT,
        expected_remote_asn: 0,
        local_asn: 0,
        passive: false,
        rs_client: false,
        route_reflector: RouteReflectorConfig::default(),
        delete_on_disconnected: false,
        admin_down: false,
        state: SessionState::Idle,
        holdtime: PeerParams::DEFAULT_HOLD_TIME,
        connect_retry_time: PeerParams::DEFAULT_CONNECT_RETRY_TIME,
        multihop_ttl: None,
        ttl_security: None,
        password: None,
        families: FnvHashMap::default(),
        send_max: FnvHashMap::default(),
        prefix_limits: FnvHashMap::default(),
        graceful_restart: None,
        llgr: None,
        bfd_config: None,
        neighbor_interface: None,
        bind_interface: None,
        export_policy: None,
    }
}

fn reject_policy(cond: table::Condition) -> Arc<table::PolicyAssignment> {
    let st = Arc::new(table::Statement {
        name: Arc::from("rej"),
        conditions: vec![cond],
        disposition: Some(table::Disposition::Reject),
        actions: Default::default(),
    });
    let p = Arc::new(table::Policy {
        name: Arc::from("p"),
        statements: vec![st],
    });
    Arc::new(table::PolicyAssignment {
        name: Arc::from("a"),
        disposition: table::Disposition::Accept,
        policies: vec![p],
        needs_rpki: false,
    })
}

fn tag_policy() -> Arc<table::PolicyAssignment> {
    let st = Arc::new(table::Statement {
        name: Arc::from("tag"),
        conditions: vec![],
        disposition: Some(table::Disposition::Accept),
        actions: table::Actions {
            community: Some(table::CommunityAction {
                action_type: table::CommunityActionType::Add,
                communities: vec![0x0003_0001],
            }),
            ..Default::default()
        },
    });
    let p = Arc::new(table::Policy {
        name: Arc::from("tagp"),
        statements: vec![st],
    });
    Arc::new(table::PolicyAssignment {
        name: Arc::from("taga"),
        disposition: table::Disposition::Accept,
        policies: vec![p],
        needs_rpki: false,
    })
}

struct World {
    conn: PeerSession,
    stream: TcpStream,   // the session's end of the socket
    client: TcpStream,   // the neighbour's end
    rxbuf: bytes::BytesMut,
    peer_codec: bgp::PeerCodec,
    peer_is_ebgp: bool,
    fifo: VecDeque<ToPeerEvent>,
    mirror: Mirror,
    registered: bool,
    local: SocketAddr,
    remote: SocketAddr,
}

impl World {
    // move what the shard fanned out to the session into the local FIFO
    fn pump(&mut self) {
        let mut batch: Vec<ToPeerEvent> = Vec::new();
        if let Some(rx) = self.conn.peer_event_rx.as_mut() {
            while let Ok(ev) = rx.as_mut().try_recv() {
                batch.push(ev);
            }
        }
        // the changes of one table operation, in prefix order (a walk comes alone)
        batch.sort_by_key(|e| match e {
            ToPeerEvent::NlriChange(c) => net_idx(&c.net),
            _ => 0,
        });
        self.fifo.extend(batch);
    }

    fn queued_nets(&self) -> Vec<Val> {
        self.fifo
            .iter()
            .filter_map(|e| match e {
                ToPeerEvent::NlriChange(c) => Some(Val::n(net_idx(&c.net))),
                ToPeerEvent::RefreshWalk { .. } => Some(Val::n(999)),
                _ => None,
            })
            .collect()
    }

    // flush_tx, then a KEEPALIVE as an end marker; read and decode until the marker
    async fn flush(&mut self, mirror: &mut Mirror) -> (Vec<Vec<u32>>, Vec<Vec<u32>>, Vec<u32>) {
        assert!(self.conn.flush_tx(&mut self.stream).await, "verif: flush_tx failed");
        self.conn.ctrl_msgs.push(bgp::Message::Keepalive);
        assert!(self.conn.flush_tx(&mut self.stream).await, "verif: flush_tx failed");
        let (mut un, mut re, mut eor) = (Vec::new(), Vec::new(), Vec::<u32>::new());
        let mut done = false;
        while !done {
            loop {
                match self.peer_codec.try_parse(&mut self.rxbuf) {
                    Ok(Some(pm)) => {
                        let msgs = bgp::validate_message(pm, self.peer_is_ebgp)
                            .unwrap_or_else(|_| panic!("verif: peer-side validation failed"));
                        for m in msgs {
                            if matches!(m, bgp::Message::Keepalive) {
                                done = true;
                            }
                            apply_msg(&m, mirror, &mut un, &mut re, &mut eor);
                        }
                    }
                    Ok(None) => break,
                    Err(_) => panic!("verif: peer-side parse error"),
                }
            }
            if !done {
                let n = self.client.read_buf(&mut self.rxbuf).await.expect("verif: read");
                assert!(n > 0, "verif: socket closed");
            }
        }
        un.sort();
        re.sort();
        (un, re, eor)
    }

    async fn establish(&mut self) {
        self.conn.on_established(self.local, self.remote).await;
        self.fifo.clear();
        self.registered = true;
    }
}

async fn run(case: &Val) -> Val {
    let cfg = case.at(0);
    let max = cfg.at(0).usize();
    let aptx = cfg.at(1).bool();
    let nbr_role = role_of(cfg.at(2).u32());
    let nbr_addr = addr_of(cfg.at(3).u32());
    let cluster_id = if cfg.at(4).bool() {
        Some(Ipv4Addr::new(9, 9, 9, 9))
    } else {
        None
    };
    let local_asn = 65001u32;
    let srcs: Vec<Arc<table::Source>> = cfg
        .at(7)
        .list()
        .iter()
        .map(|s| {
            Arc::new(table::Source::new(
                addr_of(s.at(0).u32()),
                IpAddr::V4(Ipv4Addr::new(10, 1, 0, 200)),
                s.at(2).u32(),
                local_asn,
                Ipv4Addr::new(10, 1, 0, s.at(0).u8()),
                role_of(s.at(1).u32()),
            ))
        })
        .collect();

    let (tx, _rx) = mpsc::unbounded_channel();
    let (bfd_tx, _bfd_rx) = mpsc::unbounded_channel();
    let mut g = Global::new(tx, bfd_tx);
    g.asn = local_asn;
    g.router_id = Ipv4Addr::new(1, 0, 0, 1);
    let global: GlobalHandle = Arc::new(tokio::sync::RwLock::new(g));
    let tables: TableHandle = Arc::new(TableManager::new(1));
    // import policy: MED 77 -> reject (the `filtered` flag of a case); a next hop that is
    // unreachable from the start (the `nhinv` flag)
    tables
        .import_policy
        .store(Some(reject_policy(table::Condition::MedEq(77))));
    tables.update_nexthop_validity(IpAddr::V4(BAD_NH), false);
    // spy registration: sees every change the shard emits
    let mut spy = tables.register_peer(addr_of(250), FnvHashSet::default(), |_| {});

    let listener = TcpListener::bind("127.0.0.1:0").await.unwrap();
    let laddr = listener.local_addr().unwrap();
    let (client, server) = tokio::join!(TcpStream::connect(laddr), listener.accept());
    let client = client.unwrap();
    let server = server.unwrap().0;
    let sock_remote = client.local_addr().unwrap();
    {
        let mut gl = global.write().await;
        gl.add_peer(peer_params(sock_remote.ip()), None).unwrap();
    }
    let mut conn = accept_connection(&global, &tables, server, crate::fsm::Role::Passive)
        .await
        .expect("verif: accept_connection");
    let stream = conn.stream.take().expect("verif: session has no stream");
    // the negotiated parameters of the case
    conn.remote_addr = nbr_addr;
    conn.export_ctx = PeerExportContext {
        role: nbr_role,
        local_asn,
        local_addr: IpAddr::V4(Ipv4Addr::new(10, 1, 0, 200)),
        link_addr: None,
        confederation_id: 0,
    };
    conn.cluster_id = cluster_id;
    conn.codec.set_family(
        FAM,
        bgp::FamilyState {
            addpath_rx: false,
            addpath_tx: aptx,
        },
    );
    conn.effective_max.insert(FAM, max);
    conn.state.remote_cap.store(Some(Arc::new(vec![])));
    if cfg.at(5).bool() {
        conn.state
            .export_policy
            .store(Some(reject_policy(table::Condition::Origin(2))));
    }
    let mut peer_codec = bgp::PeerCodec::new();
    peer_codec.set_family(
        FAM,
        bgp::FamilyState {
            addpath_rx: aptx,
            addpath_tx: false,
        },
    );
    let local = stream.local_addr().unwrap();
    let mut w = World {
        conn,
        stream,
        client,
        rxbuf: bytes::BytesMut::new(),
        peer_codec,
        peer_is_ebgp: matches!(nbr_role, PeerRole::Ebgp | PeerRole::RsClient),
        fifo: VecDeque::new(),
        mirror: Mirror::new(),
        registered: false,
        local,
        remote: sock_remote,
    };

    let mut out: Vec<Val> = Vec::new();
    for op in case.at(1).list() {
        let code = op.at(0).u32();
        match code {
            0 => {
                let (s, n, t) = (op.at(1).usize(), op.at(2).u32(), op.at(3).u32());
                let (filt, nhinv) = (op.at(4).bool(), op.at(5).bool());
                let nh = if nhinv {
                    BAD_NH
                } else {
                    Ipv4Addr::new(10, 2, 0, 1 + t as u8)
                };
                tables.insert_route(
                    srcs[s].clone(),
                    FAM,
                    packet::PathNlri::new(net_of(n)),
                    Some(bgp::Nexthop::V4(nh)),
                    attrs_of(s as u32, t, filt),
                    None,
                    0,
                );
            }
            1 => {
                let (s, n) = (op.at(1).usize(), op.at(2).u32());
                tables.remove_route(srcs[s].clone(), FAM, packet::PathNlri::new(net_of(n)), None, 0);
            }
            2 => tables.drop_families(srcs[op.at(1).usize()].remote_addr, &[FAM]),
            3 => {
                tables.mark_llgr_stale(srcs[op.at(1).usize()].remote_addr, &[FAM]);
                out.push(Val::L(vec![Val::n(1)]));
            }
            4 => {
                // the two arms of run_select that take events of this kind
                match w.fifo.pop_front() {
                    Some(ToPeerEvent::NlriChange(c)) => w.conn.handle_prefix_update(c),
                    Some(ToPeerEvent::RefreshWalk { family, changes, last }) => {
                        w.conn.apply_refresh_walk(family, &changes);
                        if last && let Some(p) = w.conn.pending.get_mut(&family) {
                            p.schedule_eor();
                        }
                    }
                    _ => {}
                }
                let e = w.conn.pending.get(&FAM).map(|p| p.is_empty()).unwrap_or(true);
                out.push(Val::L(vec![Val::n(2), Val::b(e)]));
            }
            5 => {
                let mut m = std::mem::take(&mut w.mirror);
                let (un, re, eor) = w.flush(&mut m).await;
                w.mirror = m;
                out.push(Val::L(vec![
                    Val::n(3),
                    rows(&un),
                    rows(&re),
                    Val::L(eor.iter().map(|x| Val::n(*x)).collect()),
                    Val::L(vec![
                        mirror_rows(&w.mirror),
                        Val::L(w.queued_nets()),
                    ]),
                ]));
            }
            6 => {
                w.establish().await;
                w.mirror.clear();
                out.push(Val::L(vec![Val::n(4)]));
            }
            7 => {
                if w.registered {
                    w.conn.do_route_refresh(FAM).await;
                }
                let e = w.conn.pending.get(&FAM).map(|p| p.is_empty()).unwrap_or(true);
                out.push(Val::L(vec![Val::n(5), Val::b(e)]));
            }
            10 => {
                let (t, reachable) = (op.at(1).u32(), op.at(2).bool());
                tables.update_nexthop_validity(
                    IpAddr::V4(Ipv4Addr::new(10, 2, 0, 1 + t as u8)),
                    reachable,
                );
            }
            11 => {
                // the stale marking of unregister_peer (the source is not the observed neighbour)
                tables.unregister_peer(srcs[op.at(1).usize()].remote_addr, &[], &[FAM]);
            }
            12 => tables.drop_stale_families(srcs[op.at(1).usize()].remote_addr, &[FAM]),
            9 => {
                let p = if op.at(1).u32() == 0 {
                    if cfg.at(5).bool() {
                        Some(reject_policy(table::Condition::Origin(2)))
                    } else {
                        None
                    }
                } else {
                    Some(tag_policy())
                };
                w.conn.state.export_policy.store(p);
                out.push(Val::L(vec![Val::n(8)]));
            }
            8 => {
                // session end: the real unregister_peer; the session's per-connection state is
                // what a new PeerSession would start with
                tables.unregister_peer(w.conn.remote_addr, &[], &[]);
                w.conn.peer_event_rx = None;
                w.conn.pending.clear();
                w.conn.export_map = ExportMap::default();
                w.fifo.clear();
                w.mirror.clear();
                w.registered = false;
                out.push(Val::L(vec![Val::n(7)]));
            }
            _ => panic!("verif: bad op"),
        }
        if code == 7 {
            w.pump();
        }
        if code <= 3 || (10..=12).contains(&code) {
            // what the table emitted
            let mut batch = Vec::new();
            while let Ok(ev) = spy.try_recv() {
                if let ToPeerEvent::NlriChange(c) = ev {
                    batch.push(c);
                }
            }
            batch.sort_by_key(|c| net_idx(&c.net));
            for c in batch {
                out.push(Val::L(vec![
                    Val::n(0),
                    Val::L(vec![Val::n(c.dest_id)]),
                    Val::n(net_idx(&c.net)),
                    Val::b(c.best_changed),
                    Val::b(c.any_changed),
                    Val::opt(c.replaced_path_id.map(Val::n)),
                    Val::L(
                        c.current_paths
                            .iter()
                            .map(|p| {
                                let (_, t, _) = decode(&p.attr);
                                let s = srcs
                                    .iter()
                                    .position(|s| Arc::ptr_eq(s, &p.source))
                                    .expect("verif: unknown source");
                                Val::L(vec![Val::n(p.local_path_id), Val::us(s), Val::n(t)])
                            })
                            .collect(),
                    ),
                ]));
            }
            w.pump();
        }
    }
    // final reference: a brand-new session with the same parameters, by the real
    // on_established, flushed through the socket
    let pending_empty = w.conn.pending.get(&FAM).map(|p| p.is_empty()).unwrap_or(true);
    let chan: Vec<Val> = w.queued_nets();
    let mut fresh = Mirror::new();
    // whatever is still pending belongs to the old session
    w.establish().await;
    w.flush(&mut fresh).await;
    out.push(Val::L(vec![
        Val::n(6),
        Val::b(pending_empty),
        Val::L(vec![
            mirror_rows(&w.mirror),
            mirror_rows(&fresh),
            Val::L(chan),
            Val::b(fresh == w.mirror),
        ]),
    ]));
    Val::L(out)
}

fn run_case(case: &Val) -> Val {
    let rt = tokio::runtime::Builder::new_current_thread()
        .enable_all()
        .build()
        .unwrap();
    rt.block_on(run(case))
}

#[test]
fn verif_event_c01_cases() {
    val::run_cases(run_case);
}
