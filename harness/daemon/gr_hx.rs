// Correspondence harness for daemon/src/gr.rs (properties C10, C11).
// Included as the body of `gr::verif_hx` under cfg(all(test, osrg_rustybgp_verif)).
//
// case = [0, gr_peers, duration, inputs]   RestartingDeferral::{new, process}   (C11)
// case = [1, inputs]                        GrState::{new, process}             (C10)
// case = [2, ops]                           rustybgp_table::Table start_deferral / insert / end_deferral (C11)
use super::*;

#[allow(dead_code)]
mod val {
    include!(concat!(env!("VERIF_HX_DIR"), "/common/val.rs"));
}
use val::Val;

fn fam_of(v: &Val) -> Family {
    let x = v.u32();
    Family::new((x >> 16) as u16, (x & 0xff) as u8)
}
fn fam_val(f: &Family) -> Val {
    Val::n(((f.afi() as u32) << 16) | f.safi() as u32)
}
fn fams_of(v: &Val) -> Vec<Family> {
    v.list().iter().map(fam_of).collect()
}
fn fams_val_sorted(l: &[Family]) -> Val {
    let mut c: Vec<u32> = l.iter().map(|f| ((f.afi() as u32) << 16) | f.safi() as u32).collect();
    c.sort();
    Val::L(c.into_iter().map(Val::n).collect())
}
fn peer_of(v: &Val) -> IpAddr {
    IpAddr::V4(std::net::Ipv4Addr::new(192, 0, 2, v.u8()))
}
fn dur_opt(v: &Val) -> Option<Duration> {
    v.list().first().map(|d| Duration::from_secs(d.u64()))
}

// ------------------------------------------------------------------ C11

fn rd_output_val(o: &RestartingOutput) -> Val {
    match o {
        // the family list is given as the code produced it (new() sorts it)
        RestartingOutput::DeferFamilies(l) => {
            Val::L(vec![Val::n(0u8), Val::L(l.iter().map(fam_val).collect())])
        }
        RestartingOutput::StartDeferralTimer(d) => {
            Val::L(vec![Val::n(1u8), Val::opt(d.map(|d| Val::n(d.as_secs())))])
        }
        RestartingOutput::FamilyDeferralComplete(f) => Val::L(vec![Val::n(2u8), fam_val(f)]),
        // hash-set order: canonicalised by sorting
        RestartingOutput::EndDeferral(l) => Val::L(vec![Val::n(3u8), fams_val_sorted(l)]),
    }
}

fn rd_input_of(v: &Val) -> RestartingInput {
    let l = v.list();
    match l[0].int() {
        0 => RestartingInput::PeerEstablished(peer_of(&l[1]), fams_of(&l[2])),
        1 => RestartingInput::EorReceived(peer_of(&l[1]), fam_of(&l[2])),
        2 => RestartingInput::PeerWithdrawn(peer_of(&l[1])),
        3 => RestartingInput::TimerExpired,
        t => panic!("verif: bad restarting input tag {}", t),
    }
}

fn run_rd_case(l: &[Val]) -> Val {
    let mut map: FnvHashMap<IpAddr, Vec<Family>> = FnvHashMap::default();
    for e in l[1].list() {
        map.insert(peer_of(e.at(0)), fams_of(e.at(1)));
    }
    let (mut rd, outs) = RestartingDeferral::new(map, dur_opt(&l[2]));
    let completed0 = rd.is_completed();
    let mut steps = Vec::new();
    for i in l[3].list() {
        let o = rd.process(rd_input_of(i));
        steps.push(Val::L(vec![
            Val::L(o.iter().map(rd_output_val).collect()),
            Val::b(rd.is_completed()),
        ]));
    }
    Val::L(vec![
        Val::L(outs.iter().map(rd_output_val).collect()),
        Val::b(completed0),
        Val::L(steps),
    ])
}

// ------------------------------------------------------------------ C10: GrState
fn gr_output_val(o: &GrOutput) -> Val {
    match o {
        GrOutput::StartTimer(d) => Val::L(vec![Val::n(0u8), Val::n(d.as_secs())]),
        GrOutput::StopTimer => Val::L(vec![Val::n(1u8)]),
        GrOutput::DeleteStaleRoutes(l) => {
            Val::L(vec![Val::n(2u8), Val::L(l.iter().map(fam_val).collect())])
        }
        GrOutput::StartLlgrTimers(l) => Val::L(vec![
            Val::n(3u8),
            Val::L(l.iter()
                .map(|(f, d)| Val::L(vec![fam_val(f), Val::n(d.as_secs())]))
                .collect()),
        ]),
        GrOutput::StopLlgrTimers => Val::L(vec![Val::n(4u8)]),
        GrOutput::DeleteLlgrStaleRoutes(l) => {
            Val::L(vec![Val::n(5u8), Val::L(l.iter().map(fam_val).collect())])
        }
    }
}

fn gr_input_of(v: &Val) -> GrInput {
    let l = v.list();
    match l[0].int() {
        0 => GrInput::SessionDropped {
            gr: l[1].list().first().map(|g| GrParams {
                families: fams_of(g.at(0)),
                restart_time: Duration::from_secs(g.at(1).u64()),
            }),
            llgr: l[2].list().first().map(|lp| LlgrParams {
                families: lp
                    .list()
                    .iter()
                    .map(|p| (fam_of(p.at(0)), Duration::from_secs(p.at(1).u64())))
                    .collect(),
            }),
        },
        1 => GrInput::SessionEstablished { gr_families: fams_of(&l[1]) },
        2 => GrInput::EorReceived(fam_of(&l[1])),
        3 => GrInput::TimerExpired,
        4 => GrInput::LlgrTimerExpired(fam_of(&l[1])),
        t => panic!("verif: bad gr input tag {}", t),
    }
}

fn run_grstate_case(l: &[Val]) -> Val {
    let mut gr = GrState::new();
    let mut steps = Vec::new();
    for i in l[1].list() {
        let o = gr.process(gr_input_of(i));
        steps.push(Val::L(vec![
            Val::L(o.iter().map(gr_output_val).collect()),
            Val::b(gr.is_peer_restarting()),
        ]));
    }
    Val::L(steps)
}

// ------------------------------------------------- C11: deferral slice of the RIB
// ops: [0,f] start_deferral | [1,f,net,peer,pid,filtered] insert | [2,f] end_deferral
//      | [3,f,net,peer,pid] remove | [4,f,peer] drop | [5,f,peer] restale | [6,f,peer] drop_stale
//      | [7,nh,reachable] update_nexthop_validity     (insert is [1,f,net,peer,pid,filtered,nh,nhinv])
// public API of rustybgp-table only; every insert carries a fresh attribute block.
fn tab_net(n: u32) -> rustybgp_packet::Nlri {
    rustybgp_packet::Nlri::V4(rustybgp_packet::bgp::Ipv4Net {
        addr: std::net::Ipv4Addr::new(10, 1, n as u8, 0),
        mask: 24,
    })
}
fn tab_net_val(n: &rustybgp_packet::Nlri) -> Val {
    match n {
        rustybgp_packet::Nlri::V4(p) => Val::n(p.addr.octets()[2]),
        _ => Val::I(-3),
    }
}
fn tab_source(peer: u8) -> std::sync::Arc<rustybgp_table::Source> {
    std::sync::Arc::new(rustybgp_table::Source::new(
        IpAddr::V4(std::net::Ipv4Addr::new(10, 0, 0, peer)),
        IpAddr::V4(std::net::Ipv4Addr::new(10, 0, 0, 254)),
        65000 + peer as u32,
        65000,
        std::net::Ipv4Addr::new(0, 0, 0, peer),
        rustybgp_table::PeerRole::Ebgp,
    ))
}
// the deferring flag is not readable through the public API: probe it with an
// insert of a scratch prefix (NoChange while deferring) that is removed again
fn tab_probe(t: &mut rustybgp_table::Table, f: Family) -> bool {
    let src = tab_source(250);
    let r = t.insert(
        src.clone(),
        f,
        tab_net(255),
        0,
        None,
        std::sync::Arc::new(Vec::new()),
        None,
        false,
        false,
        None,
        0,
    );
    let deferring = r.as_changed().is_none();
    let _ = t.remove(src, f, tab_net(255), 0, None);
    deferring
}
fn changes_val(ch: &[rustybgp_table::NlriChange]) -> Val {
    let mut v: Vec<(i128, i128)> = ch
        .iter()
        .map(|c| (tab_net_val(&c.net).int(), c.current_paths.len() as i128))
        .collect();
    v.sort();
    Val::L(v.into_iter().map(|(a, b)| Val::L(vec![Val::I(a), Val::I(b)])).collect())
}
fn tab_nh(n: u8) -> Option<rustybgp_packet::bgp::Nexthop> {
    if n == 0 {
        None
    } else {
        Some(rustybgp_packet::bgp::Nexthop::V4(std::net::Ipv4Addr::new(10, 9, 9, n)))
    }
}
fn run_tab_case(l: &[Val]) -> Val {
    let mut t = rustybgp_table::Table::new(0);
    // one Source per (peer, family), as the daemon has; replaced by a new one after a restale, as a new
    // session's would be
    let mut srcs: FnvHashMap<(u8, u32), std::sync::Arc<rustybgp_table::Source>> = FnvHashMap::default();
    let mut obs = Vec::new();
    for op in l[1].list() {
        let o = op.list();
        if o[0].int() == 7 {
            // update_nexthop_validity: every family
            let ch = t.update_nexthop_validity(
                IpAddr::V4(std::net::Ipv4Addr::new(10, 9, 9, o[1].u8())),
                o[2].bool(),
            );
            let mut v: Vec<(i128, i128, i128)> = ch
                .iter()
                .map(|c| {
                    (
                        (((c.family.afi() as u32) << 16) | c.family.safi() as u32) as i128,
                        tab_net_val(&c.net).int(),
                        c.current_paths.len() as i128,
                    )
                })
                .collect();
            v.sort();
            obs.push(Val::L(vec![
                Val::L(vec![
                    Val::n(3u8),
                    Val::L(v.into_iter()
                        .map(|(a, b, c)| Val::L(vec![Val::I(a), Val::I(b), Val::I(c)]))
                        .collect()),
                ]),
                Val::b(false),
            ]));
            continue;
        }
        let f = fam_of(&o[1]);
        let fcode = o[1].u32();
        let res = match o[0].int() {
            0 => {
                t.start_deferral(f);
                Val::L(vec![])
            }
            1 => {
                let peer = o[3].u8();
                let src = srcs.entry((peer, fcode)).or_insert_with(|| tab_source(peer)).clone();
                let r = t.insert(
                    src,
                    f,
                    tab_net(o[2].u32()),
                    o[4].u32(),
                    tab_nh(o[6].u8()),
                    std::sync::Arc::new(Vec::new()),
                    None,
                    o[5].bool(),
                    o[7].bool(),
                    None,
                    0,
                );
                match r {
                    rustybgp_table::InsertResult::NoChange => Val::L(vec![Val::n(0u8)]),
                    rustybgp_table::InsertResult::Changed(c) => Val::L(vec![
                        Val::n(1u8),
                        tab_net_val(&c.net),
                        Val::us(c.current_paths.len()),
                    ]),
                    rustybgp_table::InsertResult::PrefixLimitExceeded => Val::L(vec![Val::I(-4)]),
                }
            }
            2 => {
                // every destination of the family is reported, also one without an eligible path
                let ch = t.end_deferral(f);
                Val::L(vec![Val::n(2u8), changes_val(&ch)])
            }
            3 => {
                let peer = o[3].u8();
                let src = srcs.entry((peer, fcode)).or_insert_with(|| tab_source(peer)).clone();
                let (ch, _) = t.remove(src, f, tab_net(o[2].u32()), o[4].u32(), None);
                match ch {
                    None => Val::L(vec![Val::n(0u8)]),
                    Some(c) => Val::L(vec![
                        Val::n(1u8),
                        tab_net_val(&c.net),
                        Val::us(c.current_paths.len()),
                    ]),
                }
            }
            4 => {
                let (ch, _) = t.drop(IpAddr::V4(std::net::Ipv4Addr::new(10, 0, 0, o[2].u8())), f);
                Val::L(vec![Val::n(2u8), changes_val(&ch)])
            }
            5 => {
                let peer = o[2].u8();
                let ch = t.restale(IpAddr::V4(std::net::Ipv4Addr::new(10, 0, 0, peer)), f);
                srcs.remove(&(peer, fcode));
                Val::L(vec![Val::n(2u8), changes_val(&ch)])
            }
            6 => {
                let (ch, _) =
                    t.drop_stale(IpAddr::V4(std::net::Ipv4Addr::new(10, 0, 0, o[2].u8())), f, None);
                Val::L(vec![Val::n(2u8), changes_val(&ch)])
            }
            x => panic!("verif: bad table op {}", x),
        };
        obs.push(Val::L(vec![res, Val::b(tab_probe(&mut t, f))]));
    }
    Val::L(obs)
}

fn run_case(case: &Val) -> Val {
    let l = case.list();
    match l[0].int() {
        0 => run_rd_case(l),
        1 => run_grstate_case(l),
        2 => run_tab_case(l),
        t => panic!("verif: bad gr case kind {}", t),
    }
}

#[test]
fn verif_gr_cases() {
    val::run_cases(run_case);
}
