// Correspondence harness for daemon/src/gr.rs (properties C10, C11).
// Included as the body of `gr::verif_hx` under cfg(all(test, osrg_rustybgp_verif)).
//
// case = [0, gr_peers, duration, inputs]   RestartingDeferral::{new, process}   (C11)
// case = [1, inputs]                        GrState::{new, process}             (C10)
use super::*;

#[allow(dead_code)]
mod val {
    include!(concat!(env!("VERIF_HX_DIR"), "/common/val.rs"));
}
use val::Val;

fn fam_of(v: &Val) -> Family {
    let x = v.u32();
    Family::new((x >> 16) as u16, (x & 0xff) as u8)
}
fn fam_val(f: &Family) -> Val {
    Val::n(((f.afi() as u32) << 16) | f.safi() as u32)
}
fn fams_of(v: &Val) -> Vec<Family> {
    v.list().iter().map(fam_of).collect()
}
fn fams_val_sorted(l: &[Family]) -> Val {
    let mut c: Vec<u32> = l.iter().map(|f| ((f.afi() as u32) << 16) | f.safi() as u32).collect();
    c.sort();
    Val::L(c.into_iter().map(Val::n).collect())
}
fn peer_of(v: &Val) -> IpAddr {
    IpAddr::V4(std::net::Ipv4Addr::new(192, 0, 2, v.u8()))
}
fn dur_opt(v: &Val) -> Option<Duration> {
    v.list().first().map(|d| Duration::from_secs(d.u64()))
}

// ------------------------------------------------------------------ C11

fn rd_output_val(o: &RestartingOutput) -> Val {
    match o {
        // the family list is given as the code produced it (new() sorts it)
        RestartingOutput::DeferFamilies(l) => {
            Val::L(vec![Val::n(0u8), Val::L(l.iter().map(fam_val).collect())])
        }
        RestartingOutput::StartDeferralTimer(d) => {
            Val::L(vec![Val::n(1u8), Val::opt(d.map(|d| Val::n(d.as_secs())))])
        }
        RestartingOutput::FamilyDeferralComplete(f) => Val::L(vec![Val::n(2u8), fam_val(f)]),
        // hash-set order: canonicalised by sorting
        RestartingOutput::EndDeferral(l) => Val::L(vec![Val::n(3u8), fams_val_sorted(l)]),
    }
}

fn rd_input_of(v: &Val) -> RestartingInput {
    let l = v.list();
    match l[0].int() {
        0 => RestartingInput::PeerEstablished(peer_of(&l[1]), fams_of(&l[2])),
        1 => RestartingInput::EorReceived(peer_of(&l[1]), fam_of(&l[2])),
        2 => RestartingInput::PeerWithdrawn(peer_of(&l[1])),
        3 => RestartingInput::TimerExpired,
        t => panic!("verif: bad restarting input tag {}", t),
    }
}

fn run_rd_case(l: &[Val]) -> Val {
    let mut map: FnvHashMap<IpAddr, Vec<Family>> = FnvHashMap::default();
    for e in l[1].list() {
        map.insert(peer_of(e.at(0)), fams_of(e.at(1)));
    }
    let (mut rd, outs) = RestartingDeferral::new(map, dur_opt(&l[2]));
    let completed0 = rd.is_completed();
    let mut steps = Vec::new();
    for i in l[3].list() {
        let o = rd.process(rd_input_of(i));
        steps.push(Val::L(vec![
            Val::L(o.iter().map(rd_output_val).collect()),
            Val::b(rd.is_completed()),
        ]));
    }
    Val::L(vec![
        Val::L(outs.iter().map(rd_output_val).collect()),
        Val::b(completed0),
        Val::L(steps),
    ])
}

fn run_case(case: &Val) -> Val {
    let l = case.list();
    match l[0].int() {
        0 => run_rd_case(l),
        t => panic!("verif: bad gr case kind {}", t),
    }
}

#[test]
fn verif_gr_cases() {
    val::run_cases(run_case);
}
