// Correspondence harnesses anchored in daemon/src/table_manager.rs
// (body of `mod verif_hx`, a child of `table_manager`: private items via super::*).
//
//   verif_fib_cases  (C20)  a real TableManager with a capturing KernelHandle is
//                           driven through a history; per operation the captured
//                           request stream and the RIB views are printed.
//   verif_sub_cases  (C18)  see the second half of this file.
use super::*;
#[allow(dead_code)]
mod val {
    include!(concat!(env!("VERIF_HX_DIR"), "/common/val.rs"));
}
use std::net::Ipv4Addr;
use val::Val;

// ------------------------------------------------------------------ shared
fn peer_addr(p: u32) -> IpAddr {
    IpAddr::V4(Ipv4Addr::new(192, 168, 0, p as u8))
}
fn nh_addr(a: u32) -> Ipv4Addr {
    Ipv4Addr::new(10, 9, 0, a as u8)
}
/// address ids: below 100 an IPv4 address 10.9.0.<id>, from 100 an IPv6 address 2001:db8::<id>
fn nh_id(a: IpAddr) -> i128 {
    match a {
        IpAddr::V4(v) => v.octets()[3] as i128,
        IpAddr::V6(v) => v.segments()[7] as i128,
    }
}
fn nh_addr6(a: u32) -> std::net::Ipv6Addr {
    std::net::Ipv6Addr::new(0x2001, 0xdb8, 0, 0, 0, 0, 0, a as u16)
}
fn addr_of_id(a: u32) -> IpAddr {
    if a < 100 {
        IpAddr::V4(nh_addr(a))
    } else {
        IpAddr::V6(nh_addr6(a))
    }
}
/// next hop forms: [0,a] IPv4, [1,a] 16-byte IPv6, [2,a,l] 32-byte IPv6 global + link-local
fn nh_of_val(v: &Val) -> bgp::Nexthop {
    match v.at(0).u32() {
        0 => bgp::Nexthop::V4(nh_addr(v.at(1).u32())),
        1 => bgp::Nexthop::V6(nh_addr6(v.at(1).u32())),
        _ => bgp::Nexthop::V6LinkLocal(
            nh_addr6(v.at(1).u32()),
            std::net::Ipv6Addr::new(0xfe80, 0, 0, 0, 0, 0, 0, v.at(2).u16()),
        ),
    }
}
fn nh_form(n: bgp::Nexthop) -> Val {
    match n {
        bgp::Nexthop::V4(a) => Val::L(vec![Val::I(0), Val::I(nh_id(IpAddr::V4(a)))]),
        bgp::Nexthop::V6(a) => Val::L(vec![Val::I(1), Val::I(nh_id(IpAddr::V6(a)))]),
        bgp::Nexthop::V6LinkLocal(a, l) => Val::L(vec![
            Val::I(2),
            Val::I(nh_id(IpAddr::V6(a))),
            Val::I(l.segments()[7] as i128),
        ]),
    }
}
fn plain_net(id: u32) -> packet::bgp::Ipv4Net {
    packet::bgp::Ipv4Net {
        addr: Ipv4Addr::new(10, id as u8, 0, 0),
        mask: 24,
    }
}
/// prefix (kind, id):
///   kind 0  IPv4 unicast 10.<id>.0.0/24 (id < 100)
///   kind 1  VPNv4, id = 10*rd + inner: RD 65000:<1+rd>, inner prefix 10.<100+inner>.0.0/24;
///           its VRF-local form (what reaches a VRF table) is printed as kind 2, id inner
///   kind 3  IPv6 unicast 2001:db8:<id>::/48 (id < 100)
///   kind 4  VPNv6, id = 10*rd + inner, inner prefix 2001:db8:<100+inner>::/48; VRF-local form kind 5
fn plain_net6(id: u32) -> packet::bgp::Ipv6Net {
    packet::bgp::Ipv6Net {
        addr: std::net::Ipv6Addr::new(0x2001, 0xdb8, id as u16, 0, 0, 0, 0, 0),
        mask: 48,
    }
}
fn mk_net(kind: u32, id: u32) -> (Family, packet::Nlri) {
    let rd = packet::rd::RouteDistinguisher::TwoOctetAs {
        admin: 65000,
        assigned: 1 + id / 10,
    };
    let labels = || packet::mpls::MplsLabelStack::new(vec![packet::mpls::MplsLabel::new(16)]);
    match kind {
        0 => (Family::IPV4, packet::Nlri::V4(plain_net(id))),
        1 => (
            Family::IPV4_VPN,
            packet::Nlri::VpnV4(packet::vpn::VpnV4Nlri {
                prefix: plain_net(100 + id % 10),
                rd,
                labels: labels(),
            }),
        ),
        3 => (Family::IPV6, packet::Nlri::V6(plain_net6(id))),
        _ => (
            Family::IPV6_VPN,
            packet::Nlri::VpnV6(packet::vpn::VpnV6Nlri {
                prefix: plain_net6(100 + id % 10),
                rd,
                labels: labels(),
            }),
        ),
    }
}
fn rd_index(rd: &packet::rd::RouteDistinguisher) -> i128 {
    match rd {
        packet::rd::RouteDistinguisher::TwoOctetAs { assigned, .. } => *assigned as i128 - 1,
        _ => -1,
    }
}
fn net_val(n: &packet::Nlri) -> Val {
    let v = |k: i128, id: i128| Val::L(vec![Val::I(k), Val::I(id)]);
    match n {
        packet::Nlri::V4(p) => {
            let b = p.addr.octets()[1] as i128;
            if b >= 100 { v(2, b - 100) } else { v(0, b) }
        }
        packet::Nlri::VpnV4(x) => v(1, 10 * rd_index(&x.rd) + x.prefix.addr.octets()[1] as i128 - 100),
        packet::Nlri::V6(p) => {
            let b = p.addr.segments()[2] as i128;
            if b >= 100 { v(5, b - 100) } else { v(3, b) }
        }
        packet::Nlri::VpnV6(x) => v(4, 10 * rd_index(&x.rd) + x.prefix.addr.segments()[2] as i128 - 100),
        _ => v(9, 0),
    }
}
fn rt_bytes(r: u32) -> [u8; 8] {
    [0x00, 0x02, 0xfd, 0xe8, 0x00, 0x00, 0x00, r as u8]
}
fn as_path(len: u8) -> packet::Attribute {
    let mut bin = vec![packet::Attribute::AS_PATH_TYPE_SEQ, len];
    for i in 0..len as u32 {
        bin.extend_from_slice(&(65100 + i).to_be_bytes());
    }
    packet::Attribute::new_with_bin(packet::Attribute::AS_PATH, bin).unwrap()
}
/// Attribute block for a rank class `pref` (0 = most preferred): the classes are
/// separated by LOCAL_PREF, AS_PATH length and ORIGIN in turn, so that the
/// abstract "lower pref wins" of the model runs through decision steps 2-4.
fn mk_attrs(pref: u32, llgrc: bool, nollgr: bool, rts: &[u32]) -> Arc<Vec<packet::Attribute>> {
    mk_attrs_rr(pref, llgrc, nollgr, rts, 0, None)
}

/// as mk_attrs, plus the route-reflection attributes: a CLUSTER_LIST of `clen`
/// entries and an ORIGINATOR_ID 1.1.1.<oid> (router ids are 1.1.1.<rid>, so the
/// model's small numbers order the same way)
fn mk_attrs_rr(
    pref: u32,
    llgrc: bool,
    nollgr: bool,
    rts: &[u32],
    clen: u32,
    oid: Option<u32>,
) -> Arc<Vec<packet::Attribute>> {
    let (lp, plen, origin) = match pref {
        0 => (200u32, 2u8, 0u32),
        1 => (100, 1, 0),
        2 => (100, 2, 0),
        3 => (100, 2, 1),
        4 => (100, 2, 2),
        k => (90u32.saturating_sub(k), 2, 0),
    };
    let mut v = vec![
        packet::Attribute::new_with_value(packet::Attribute::ORIGIN, origin).unwrap(),
        as_path(plen),
        packet::Attribute::new_with_value(packet::Attribute::LOCAL_PREF, lp).unwrap(),
    ];
    let mut comm = Vec::new();
    if llgrc {
        comm.extend_from_slice(&0xffff_0006u32.to_be_bytes());
    }
    if nollgr {
        comm.extend_from_slice(&0xffff_0007u32.to_be_bytes());
    }
    if !comm.is_empty() {
        v.push(packet::Attribute::new_with_bin(packet::Attribute::COMMUNITY, comm).unwrap());
    }
    if !rts.is_empty() {
        let mut data = Vec::new();
        for r in rts {
            data.extend_from_slice(&rt_bytes(*r));
        }
        v.push(packet::Attribute::new_with_bin(packet::Attribute::EXTENDED_COMMUNITY, data).unwrap());
    }
    if clen > 0 {
        let mut data = Vec::new();
        for i in 0..clen {
            data.extend_from_slice(&(0x0a00_0000u32 + i).to_be_bytes());
        }
        v.push(packet::Attribute::new_with_bin(packet::Attribute::CLUSTER_LIST, data).unwrap());
    }
    if let Some(o) = oid {
        v.push(packet::Attribute::new_with_value(packet::Attribute::ORIGINATOR_ID, if o == 0 { 0 } else { 0x0101_0100 + o }).unwrap());
    }
    Arc::new(v)
}

struct World {
    tm: TableManager,
    /// (peer, sess) -> Source; peer 0 is Source::local()
    srcs: Vec<((u32, u32), Arc<table::Source>)>,
    peers: Vec<(u32, u32, bool)>,
    attrs: Vec<(u32, Arc<Vec<packet::Attribute>>)>,
    pols: Vec<Arc<table::PolicyAssignment>>,
}

impl World {
    fn src(&mut self, peer: u32, sess: u32) -> Arc<table::Source> {
        if peer == 0 {
            // both pseudo-sources have remote address 0.0.0.0: session 0 is the
            // gRPC-injected source, any other session the kernel-redistribution one
            return if sess == 0 {
                table::Source::local()
            } else {
                table::Source::kernel()
            };
        }
        if let Some((_, s)) = self.srcs.iter().find(|(k, _)| *k == (peer, sess)) {
            return s.clone();
        }
        let (_, rid, ibgp) = *self
            .peers
            .iter()
            .find(|(p, _, _)| *p == peer)
            .unwrap_or(&(peer, peer, false));
        let s = Arc::new(table::Source::new(
            peer_addr(peer),
            IpAddr::V4(Ipv4Addr::new(127, 0, 0, 1)),
            if ibgp { 65000 } else { 65000 + peer },
            65000,
            Ipv4Addr::new(1, 1, 1, rid as u8),
            if ibgp {
                table::PeerRole::Ibgp
            } else {
                table::PeerRole::Ebgp
            },
        ));
        self.srcs.push(((peer, sess), s.clone()));
        s
    }
    fn src_id(&self, s: &Arc<table::Source>) -> (i128, i128) {
        if s.is_local() {
            return (0, 0);
        }
        if s.is_kernel() {
            return (0, 1);
        }
        for ((p, q), x) in &self.srcs {
            if Arc::ptr_eq(x, s) {
                return (*p as i128, *q as i128);
            }
        }
        (-1, -1)
    }
    fn tok_of(&self, a: &Arc<Vec<packet::Attribute>>) -> i128 {
        for (t, x) in &self.attrs {
            if Arc::ptr_eq(x, a) {
                return *t as i128;
            }
        }
        -1
    }
}

fn nh_val(n: Option<bgp::Nexthop>) -> Val {
    Val::opt(n.map(nh_form))
}

const FAMS: [Family; 4] = [Family::IPV4, Family::IPV4_VPN, Family::IPV6, Family::IPV6_VPN];

/// Adj-RIB-In and Loc-RIB views of the whole table, canonical order.
///   [ [net, [[peer,sess,pid,nh,tok,unfiltered]...] (rank order),
///           [[peer,sess,nh,tok,stale,llgr]...] (eligible, rank order)] ... ] sorted by net
fn rib_view(w: &World) -> Val {
    let mut dests: Vec<(Vec<i128>, Vec<Val>, Vec<Val>)> = Vec::new();
    fn slot<'a>(d: &'a mut Vec<(Vec<i128>, Vec<Val>, Vec<Val>)>, k: Vec<i128>) -> &'a mut (Vec<i128>, Vec<Val>, Vec<Val>) {
        if let Some(i) = d.iter().position(|x| x.0 == k) {
            return &mut d[i];
        }
        d.push((k, vec![], vec![]));
        d.last_mut().unwrap()
    }
    fn key(n: &packet::Nlri) -> Vec<i128> {
        net_val(n).list().iter().map(|v| v.int()).collect()
    }
    for shard in &w.tm.shards {
        let t = shard.lock().unwrap();
        for f in FAMS {
            let post: Vec<(Vec<i128>, i128, u32)> = t
                .rtable
                .iter_reach_post(f)
                .map(|r| (key(&r.net.nlri), w.src_id(&r.source).0, r.net.path_id))
                .collect();
            for r in t.rtable.iter_reach(f) {
                let k = key(&r.net.nlri);
                let (p, s) = w.src_id(&r.source);
                let unf = post.iter().any(|x| x.0 == k && x.1 == p && x.2 == r.net.path_id);
                slot(&mut dests, k).1.push(Val::L(vec![
                    Val::I(p),
                    Val::I(s),
                    Val::n(r.net.path_id),
                    nh_val(r.nexthop),
                    Val::I(w.tok_of(&r.attr)),
                    Val::b(unf),
                ]));
            }
            for c in t.rtable.collect_loc_rib_paths(&f) {
                let k = key(&c.net);
                for p in c.current_paths.iter() {
                    let (pp, ss) = w.src_id(&p.source);
                    slot(&mut dests, k.clone()).2.push(Val::L(vec![
                        Val::I(pp),
                        Val::I(ss),
                        nh_val(p.nexthop),
                        Val::I(w.tok_of(&p.attr)),
                        Val::b(p.source.is_stale()),
                        Val::b(p.source.is_llgr_stale()),
                    ]));
                }
            }
        }
    }
    dests.sort_by(|a, b| a.0.cmp(&b.0));
    Val::L(
        dests
            .into_iter()
            .map(|(k, a, e)| Val::L(vec![Val::L(k.into_iter().map(Val::I).collect()), Val::L(a), Val::L(e)]))
            .collect(),
    )
}

// ------------------------------------------------------------------ C20
fn drain(rx: &mut kernel::VerifReceiver) -> Val {
    let mut out = Vec::new();
    while let Some(r) = rx.try_next() {
        match r {
            kernel::VerifRequest::Apply(c) => out.push(Val::L(vec![
                Val::I(0),
                Val::opt(c.table_id.map(Val::n)),
                net_val(&c.net),
                Val::L(c.nexthops.iter().map(|n| Val::I(nh_id(n.addr()))).collect()),
            ])),
            kernel::VerifRequest::RegisterNexthop(a) => out.push(Val::L(vec![Val::I(1), Val::I(nh_id(a))])),
            kernel::VerifRequest::UnregisterNexthop(a) => out.push(Val::L(vec![Val::I(2), Val::I(nh_id(a))])),
            kernel::VerifRequest::CreateVrf { .. } | kernel::VerifRequest::DeleteVrf { .. } => {}
        }
    }
    Val::L(out)
}

fn mk_policy(k: usize, rules: &[Val]) -> Arc<table::PolicyAssignment> {
    // one statement per rule: condition "neighbour is <peer>", disposition and
    // optional next-hop action.  (PolicyTable refuses next-hop actions in an
    // *import* assignment, so the assignment is built as an export one: the
    // PolicyAssignment value itself carries no direction.)
    let mut pt = table::PolicyTable::new();
    let mut names = Vec::new();
    for (i, r) in rules.iter().enumerate() {
        let peer = r.at(0).u32();
        let act = r.at(1);
        let ns = format!("ns{}_{}", k, i);
        pt.add_defined_set(table::DefinedSetConfig::Neighbor {
            name: ns.clone(),
            neighbors: vec![format!("{}/32", peer_addr(peer))],
        })
        .unwrap();
        let (disp, actions) = match act.at(0).u32() {
            1 => (table::Disposition::Reject, table::Actions::default()),
            2 => (
                table::Disposition::Accept,
                table::Actions {
                    nexthop: Some(table::NexthopAction::Address(addr_of_id(act.at(1).u32()))),
                    ..table::Actions::default()
                },
            ),
            _ => (table::Disposition::Accept, table::Actions::default()),
        };
        let st = format!("st{}_{}", k, i);
        pt.add_statement(
            &st,
            vec![table::ConditionConfig::NeighborSet(ns, table::MatchOption::Any)],
            Some(disp),
            actions,
        )
        .unwrap();
        names.push(st);
    }
    let pn = format!("pol{}", k);
    pt.add_policy(&pn, names).unwrap();
    let (_, a) = pt
        .add_assignment("ribs", table::PolicyDirection::Export, table::Disposition::Accept, vec![pn])
        .unwrap();
    a
}

fn mk_world(cfg: &Val, shards: usize) -> World {
    let mut w = World {
        tm: TableManager::new(shards),
        srcs: vec![],
        peers: cfg.at(0).list().iter().map(|p| (p.at(0).u32(), p.at(1).u32(), p.at(2).bool())).collect(),
        attrs: vec![],
        pols: vec![],
    };
    for a in cfg.at(1).list() {
        let rts: Vec<u32> = a.at(4).list().iter().map(|r| r.u32()).collect();
        let clen = if a.list().len() > 5 { a.at(5).u32() } else { 0 };
        let oid = if a.list().len() > 6 { a.at(6).list().first().map(|x| x.u32()) } else { None };
        w.attrs.push((
            a.at(0).u32(),
            mk_attrs_rr(a.at(1).u32(), a.at(2).bool(), a.at(3).bool(), &rts, clen, oid),
        ));
    }
    let mut vrfs: FnvHashMap<String, table::Vrf> = FnvHashMap::default();
    for (i, v) in cfg.at(2).list().iter().enumerate() {
        let name = format!("vrf{}", i);
        vrfs.insert(
            name.clone(),
            table::Vrf {
                name,
                rd: packet::rd::RouteDistinguisher::TwoOctetAs {
                    admin: 65000,
                    assigned: 1,
                },
                import_rt: v.at(1).list().iter().map(|r| rt_bytes(r.u32())).collect(),
                export_rt: Vec::new(),
                label: packet::mpls::MplsLabel::new(16 + i as u32),
                id: v.at(0).u32(),
            },
        );
    }
    w.tm.vrfs.store(Arc::new(vrfs));
    for (k, p) in cfg.at(3).list().iter().enumerate() {
        w.pols.push(mk_policy(k, p.list()));
    }
    w
}

fn fib_op(w: &mut World, op: &Val) {
    let fams = FAMS.to_vec();
    match op.at(0).u32() {
        0 => {
            let s = w.src(op.at(1).u32(), op.at(2).u32());
            let (f, n) = mk_net(op.at(3).u32(), op.at(4).u32());
            let nh = op.at(6).list().first().map(nh_of_val);
            let tok = op.at(7).u32();
            let attr = w.attrs.iter().find(|(t, _)| *t == tok).expect("attr token").1.clone();
            w.tm.insert_route(
                s,
                f,
                packet::PathNlri {
                    nlri: n,
                    path_id: op.at(5).u32(),
                },
                nh,
                attr,
                None,
                0,
            );
        }
        1 => {
            let s = w.src(op.at(1).u32(), op.at(2).u32());
            let (f, n) = mk_net(op.at(3).u32(), op.at(4).u32());
            w.tm.remove_route(
                s,
                f,
                packet::PathNlri {
                    nlri: n,
                    path_id: op.at(5).u32(),
                },
                None,
                0,
            );
        }
        2 => w.tm.drop_families(peer_addr(op.at(1).u32()), &fams),
        3 => w.tm.unregister_peer(peer_addr(op.at(1).u32()), &[], &fams),
        4 => w.tm.drop_stale_families(peer_addr(op.at(1).u32()), &fams),
        5 => w.tm.mark_llgr_stale(peer_addr(op.at(1).u32()), &fams),
        6 => w.tm.drop_llgr_stale_families(peer_addr(op.at(1).u32()), &fams),
        7 => w.tm.update_nexthop_validity(addr_of_id(op.at(1).u32()), op.at(2).bool()),
        8 => {
            let k = op.at(1).usize();
            if k == 0 {
                w.tm.import_policy.store(None);
            } else {
                w.tm.import_policy.store(Some(w.pols[k - 1].clone()));
            }
        }
        9 => w.tm.soft_reset_in(peer_addr(op.at(1).u32())),
        10 => w.tm.unregister_peer(peer_addr(op.at(1).u32()), &fams, &[]),
        11 => {
            // insert under a prefix limit: [11, peer, sess, kind, id, pid, nh, tok, max, counter]
            let s = w.src(op.at(1).u32(), op.at(2).u32());
            let (f, n) = mk_net(op.at(3).u32(), op.at(4).u32());
            let nh = op.at(6).list().first().map(nh_of_val);
            let tok = op.at(7).u32();
            let attr = w.attrs.iter().find(|(t, _)| *t == tok).expect("attr token").1.clone();
            let ctr = Arc::new(std::sync::atomic::AtomicU64::new(op.at(9).u32() as u64));
            w.tm.insert_route(
                s,
                f,
                packet::PathNlri {
                    nlri: n,
                    path_id: op.at(5).u32(),
                },
                nh,
                attr,
                Some((op.at(8).u32(), ctr)),
                0,
            );
        }
        12 => w.tm.start_deferral_families(&[mk_net(op.at(1).u32(), 1).0]),
        13 => w.tm.end_deferral_families(&[mk_net(op.at(1).u32(), 1).0]),
        _ => panic!("verif: unknown op"),
    }
}

/// case = [cfg, shards, ops]; observation = one [requests, rib view] per op.
fn run_fib_case(case: &Val) -> Val {
    let mut w = mk_world(case.at(0), case.at(1).usize().max(1));
    let (h, mut rx) = kernel::KernelHandle::verif_capture();
    w.tm.kernel_handle.store(Some(Arc::new(h)));
    let mut out = Vec::new();
    for op in case.at(2).list() {
        fib_op(&mut w, op);
        let reqs = drain(&mut rx);
        out.push(Val::L(vec![reqs, rib_view(&w)]));
    }
    Val::L(out)
}

#[test]
fn verif_fib_cases() {
    val::run_cases(run_fib_case);
}

/// case = [cfg, shards, pre ops, insert op, reachability reports]: after the history
/// `pre` a second thread runs insert_route up to its shard-lock acquisition
/// (scheduling point 1); this thread then performs the reports completely and lets
/// the insert finish.  observation = one [requests, rib view] per op of `pre`, then
/// one for the race as a whole.
fn run_fib_race_case(case: &Val) -> Val {
    let mut w = mk_world(case.at(0), case.at(1).usize().max(1));
    let (h, mut rx) = kernel::KernelHandle::verif_capture();
    w.tm.kernel_handle.store(Some(Arc::new(h)));
    let mut out = Vec::new();
    for op in case.at(2).list() {
        fib_op(&mut w, op);
        let reqs = drain(&mut rx);
        out.push(Val::L(vec![reqs, rib_view(&w)]));
    }
    let op = case.at(3);
    let src = w.src(op.at(1).u32(), op.at(2).u32());
    let (f, n) = mk_net(op.at(3).u32(), op.at(4).u32());
    let nh = op.at(6).list().first().map(nh_of_val);
    let tok = op.at(7).u32();
    let attr = w.attrs.iter().find(|(t, _)| *t == tok).expect("attr token").1.clone();
    let pid = op.at(5).u32();
    let sched = Arc::new(Sched::new(1));
    {
        let tm = &w.tm;
        std::thread::scope(|sc| {
            let s1 = sched.clone();
            sc.spawn(move || {
                let s2 = s1.clone();
                verif_sched::install(Box::new(move |_id| s2.park(0)));
                let r = std::panic::catch_unwind(std::panic::AssertUnwindSafe(|| {
                    tm.insert_route(src, f, packet::PathNlri { nlri: n, path_id: pid }, nh, attr, None, 0);
                }));
                s1.finish(0);
                if let Err(e) = r {
                    std::panic::resume_unwind(e);
                }
            });
            // the inserter is parked before its shard lock (or has finished, were the point removed)
            sched.settle(0);
            for m in case.at(4).list() {
                tm.update_nexthop_validity(addr_of_id(m.at(1).u32()), m.at(2).bool());
            }
            while sched.grant(0) {}
        });
    }
    let reqs = drain(&mut rx);
    out.push(Val::L(vec![reqs, rib_view(&w)]));
    Val::L(out)
}

#[test]
fn verif_fib_race_cases() {
    val::run_cases(run_fib_race_case);
}

// ------------------------------------------------------------------ C18
// Real threads run the real TableManager code; a deterministic scheduler grants
// one step at a time in the order the case dictates.  A step is the stretch of
// code between two scheduling points (verif_sched::point in table_manager.rs
// before every shard-lock acquisition, plus one here before every operation).
use std::sync::Condvar;
use std::time::Duration;

struct SchedState {
    turn: Option<usize>,
    parked: Vec<bool>,
    done: Vec<bool>,
    dead: bool,
}
struct Sched {
    st: Mutex<SchedState>,
    cv: Condvar,
}
const SCHED_WAIT: Duration = Duration::from_secs(20);

impl Sched {
    fn new(n: usize) -> Sched {
        Sched {
            st: Mutex::new(SchedState {
                turn: None,
                parked: vec![false; n],
                done: vec![false; n],
                dead: false,
            }),
            cv: Condvar::new(),
        }
    }
    /// called by thread `i` at a scheduling point: wait for the next grant
    fn park(&self, i: usize) {
        let mut g = self.st.lock().unwrap();
        g.parked[i] = true;
        self.cv.notify_all();
        while g.turn != Some(i) {
            if g.dead {
                panic!("verif: scheduler abandoned the case");
            }
            let (ng, to) = self.cv.wait_timeout(g, SCHED_WAIT).unwrap();
            g = ng;
            if to.timed_out() && g.turn != Some(i) {
                g.dead = true;
                self.cv.notify_all();
                panic!("verif: thread {} starved at a scheduling point", i);
            }
        }
        g.turn = None;
    }
    fn finish(&self, i: usize) {
        let mut g = self.st.lock().unwrap();
        g.done[i] = true;
        self.cv.notify_all();
    }
    /// scheduler side: wait until thread `i` is parked or done
    fn settle(&self, i: usize) -> bool {
        let mut g = self.st.lock().unwrap();
        while !(g.parked[i] || g.done[i]) {
            let (ng, to) = self.cv.wait_timeout(g, SCHED_WAIT).unwrap();
            g = ng;
            if to.timed_out() && !(g.parked[i] || g.done[i]) {
                g.dead = true;
                self.cv.notify_all();
                panic!("verif: thread {} did not reach a scheduling point (deadlock?)", i);
            }
        }
        g.done[i]
    }
    /// grant one step to thread `i`; false when it has already finished
    fn grant(&self, i: usize) -> bool {
        if self.settle(i) {
            return false;
        }
        {
            let mut g = self.st.lock().unwrap();
            g.parked[i] = false;
            g.turn = Some(i);
            self.cv.notify_all();
        }
        self.settle(i);
        true
    }
}

struct SubWorld {
    tm: TableManager,
    srcs: Vec<Mutex<Arc<table::Source>>>,          // index = peer; replaced after a graceful-restart down
    attrs: Vec<Arc<Vec<packet::Attribute>>>,       // index = token
    nets: [[packet::Nlri; 4]; 2],                  // [shard][index]
    pols: Vec<Arc<table::PolicyAssignment>>,
    ctrs: Vec<Arc<std::sync::atomic::AtomicU64>>,  // index = peer
    lims: Vec<Option<u32>>,
    subs: Vec<Mutex<Option<Subscription>>>,        // index = subscription slot
}

fn sub_new_source(p: u32) -> Arc<table::Source> {
    Arc::new(table::Source::new(
        peer_addr(p),
        IpAddr::V4(Ipv4Addr::new(127, 0, 0, 1)),
        65000 + p,
        65000,
        Ipv4Addr::new(1, 1, 1, p as u8),
        table::PeerRole::Ebgp,
    ))
}
fn sub_src(w: &SubWorld, peer: usize) -> Arc<table::Source> {
    w.srcs[peer].lock().unwrap().clone()
}
fn sub_net(w: &SubWorld, sh: usize, ix: usize) -> packet::Nlri {
    w.nets[sh.min(1)][ix % 4].clone()
}
fn sub_key(w: &SubWorld, src: &table::Source, n: &packet::PathNlri) -> Val {
    let peer = nh_id(src.remote_addr);
    let mut pos = (-1i128, -1i128);
    for sh in 0..2 {
        for ix in 0..4 {
            if w.nets[sh][ix] == n.nlri {
                pos = (sh as i128, ix as i128);
            }
        }
    }
    Val::L(vec![Val::I(peer), Val::I(pos.0), Val::I(pos.1), Val::n(n.path_id)])
}
fn sub_tok(w: &SubWorld, a: &Arc<Vec<packet::Attribute>>) -> Val {
    Val::I(w.attrs.iter().position(|x| Arc::ptr_eq(x, a)).map(|x| x as i128).unwrap_or(-1))
}
fn sub_peer_down(w: &SubWorld, p: usize) {
    w.tm.peer_down(PeerDownData {
        peer_addr: peer_addr(p as u32),
        peer_asn: 65000 + p as u32,
        peer_id: p as u32,
        uptime: 0,
        reason: packet::bmp::PeerDownReason::RemoteUnexpected,
    });
}

fn sub_do_op(w: &SubWorld, op: &Val) {
    let path = |op: &Val| {
        let peer = op.at(1).usize();
        let n = sub_net(w, op.at(2).usize(), op.at(3).usize());
        (
            peer,
            packet::PathNlri {
                nlri: n,
                path_id: op.at(4).u32(),
            },
        )
    };
    let fam = [Family::IPV4];
    match op.at(0).u32() {
        0 => {
            let j = if op.list().len() > 1 { op.at(1).usize() } else { 0 };
            let s = w.tm.subscribe(true);
            *w.subs[j].lock().unwrap() = Some(s);
        }
        1 => {
            let (peer, net) = path(op);
            let pl = w.lims[peer].map(|m| (m, w.ctrs[peer].clone()));
            w.tm.insert_route(
                sub_src(w, peer),
                Family::IPV4,
                net,
                // paths of every other key carry no next hop (RT-membership routes, API paths
                // without one): the Adj-RIB-In view does not depend on it
                if (op.at(2).u32() + op.at(3).u32() + op.at(4).u32()) % 2 == 1 {
                    None
                } else {
                    Some(bgp::Nexthop::V4(nh_addr(peer as u32)))
                },
                w.attrs[op.at(5).usize()].clone(),
                pl,
                7,
            );
        }
        2 => {
            let (peer, net) = path(op);
            let ctr = w.lims[peer].map(|_| w.ctrs[peer].clone());
            w.tm.remove_route(sub_src(w, peer), Family::IPV4, net, ctr, 7);
        }
        3 => {
            let p = op.at(1).usize();
            let open = bgp::Message::Open(bgp::Open {
                as_number: 65000 + p as u32,
                holdtime: bgp::HoldTime::DISABLED,
                router_id: p as u32,
                capability: vec![],
            });
            w.tm.peer_up(PeerUpData {
                peer_addr: peer_addr(p as u32),
                peer_asn: 65000 + p as u32,
                peer_id: p as u32,
                uptime: 0,
                local_addr: IpAddr::V4(Ipv4Addr::new(127, 0, 0, 1)),
                local_port: 179,
                remote_port: 179,
                sent_open: open.clone(),
                received_open: open,
            });
        }
        4 => {
            // the session-down glue of event/mod.rs: unregister_peer, then peer_down
            let p = op.at(1).usize();
            w.tm.unregister_peer(peer_addr(p as u32), &fam, &[]);
            verif_sched::point(0);
            sub_peer_down(w, p);
            w.ctrs[p].store(0, std::sync::atomic::Ordering::Relaxed); // the session's counter dies with it
        }
        5 => w.tm.soft_reset_in(peer_addr(op.at(1).u32())),
        6 => {
            let k = op.at(1).usize();
            if k == 0 || k > w.pols.len() {
                w.tm.import_policy.store(None);
            } else {
                w.tm.import_policy.store(Some(w.pols[k - 1].clone()));
            }
        }
        7 => {
            // session down with graceful restart negotiated: the paths are kept, marked stale
            let p = op.at(1).usize();
            w.tm.unregister_peer(peer_addr(p as u32), &[], &fam);
            verif_sched::point(0);
            sub_peer_down(w, p);
            w.ctrs[p].store(0, std::sync::atomic::Ordering::Relaxed);
            *w.srcs[p].lock().unwrap() = sub_new_source(p as u32); // the next session has its own Source
        }
        8 => w.tm.drop_stale_families(peer_addr(op.at(1).u32()), &fam),
        9 => w.tm.drop_families(peer_addr(op.at(1).u32()), &fam),
        10 => w.tm.update_nexthop_validity(IpAddr::V4(nh_addr(op.at(1).u32())), op.at(2).bool()),
        11 => w.tm.mark_llgr_stale(peer_addr(op.at(1).u32()), &fam),
        12 => w.tm.drop_llgr_stale_families(peer_addr(op.at(1).u32()), &fam),
        13 => {
            let id = w.subs[op.at(1).usize()].lock().unwrap().as_ref().map(|s| s.id);
            if let Some(id) = id {
                w.tm.unsubscribe(id);
            }
        }
        _ => panic!("verif: unknown op"),
    }
}

/// what one subscriber received, its fold (bmp.rs apply_snapshot / track_peer_*)
fn sub_drain(w: &SubWorld, sub: &mut Subscription) -> Val {
    let mut evs = Vec::new();
    let mut pre: crate::bmp::verif_fold::Snapshot = FnvHashMap::default();
    let mut post: crate::bmp::verif_fold::Snapshot = FnvHashMap::default();
    let mut sent: FnvHashSet<IpAddr> = FnvHashSet::default();
    let mut fwd = Vec::new();
    let peer_of = |a: IpAddr| Val::I(nh_id(a));
    while let Ok(e) = sub.rx.try_recv() {
        match e {
            BgpEvent::AdjRibIn(c) => {
                for nl in &c.nlris {
                    evs.push(Val::L(vec![Val::I(0), sub_key(w, &c.source, nl), Val::opt(c.attrs.as_ref().map(|a| sub_tok(w, a)))]));
                }
                crate::bmp::verif_fold::apply(&mut pre, c);
            }
            BgpEvent::AdjRibInPost(c) => {
                for nl in &c.nlris {
                    evs.push(Val::L(vec![Val::I(1), sub_key(w, &c.source, nl), Val::opt(c.attrs.as_ref().map(|a| sub_tok(w, a)))]));
                }
                crate::bmp::verif_fold::apply(&mut post, c);
            }
            BgpEvent::PeerUp(d) => {
                evs.push(Val::L(vec![Val::I(2), peer_of(d.peer_addr)]));
                crate::bmp::verif_fold::peer_up(&mut sent, d.peer_addr);
                fwd.push(Val::L(vec![Val::I(2), peer_of(d.peer_addr)]));
            }
            BgpEvent::PeerDown(d) => {
                evs.push(Val::L(vec![Val::I(3), peer_of(d.peer_addr)]));
                // a monitoring station forgets the peer's routes on Peer Down
                pre.remove(&d.peer_addr);
                post.remove(&d.peer_addr);
                if crate::bmp::verif_fold::peer_down(&mut sent, d.peer_addr) {
                    fwd.push(Val::L(vec![Val::I(3), peer_of(d.peer_addr)]));
                }
            }
            BgpEvent::EndOfSnapshot => evs.push(Val::L(vec![Val::I(4)])),
            _ => {}
        }
    }
    let dump = |m: &crate::bmp::verif_fold::Snapshot| {
        let mut v: Vec<Val> = Vec::new();
        for pm in m.values() {
            for ((_, nl), c) in pm {
                v.push(Val::L(vec![sub_key(w, &c.source, nl), sub_tok(w, c.attrs.as_ref().unwrap())]));
            }
        }
        v.sort_by_key(|x| format!("{}", x));
        Val::L(v)
    };
    Val::L(vec![Val::L(evs), dump(&pre), dump(&post), Val::L(fwd)])
}

/// case = [[pols, lims], progs, sched]
/// observation = [iter_reach (with the stale mark of the path's Source), iter_reach_post,
///                [per subscription slot: [events, fold pre, fold post, forwarded]]]
fn run_sub_case(case: &Val) -> Val {
    const NPEER: usize = 4;
    const NSUB: usize = 3;
    let tm = TableManager::new(2);
    // concrete prefixes for (shard, index)
    let mut found: [Vec<packet::Nlri>; 2] = [vec![], vec![]];
    let mut x = 1u32;
    while found[0].len() < 4 || found[1].len() < 4 {
        let n = packet::Nlri::V4(packet::bgp::Ipv4Net {
            addr: Ipv4Addr::new(10, (x >> 8) as u8, x as u8, 0),
            mask: 24,
        });
        let s = tm.dealer(&n);
        if found[s].len() < 4 {
            found[s].push(n);
        }
        x += 1;
    }
    let nets = [
        [found[0][0].clone(), found[0][1].clone(), found[0][2].clone(), found[0][3].clone()],
        [found[1][0].clone(), found[1][1].clone(), found[1][2].clone(), found[1][3].clone()],
    ];
    let cfg = case.at(0);
    let mut lims = vec![None; NPEER];
    for l in cfg.at(1).list() {
        lims[l.at(0).usize()] = Some(l.at(1).u32());
    }
    let w = SubWorld {
        tm,
        srcs: (0..NPEER as u32).map(|p| Mutex::new(sub_new_source(p))).collect(),
        attrs: (0..8u32).map(|t| mk_attrs(t % 3, false, t >= 4, &[t])).collect(),
        nets,
        pols: cfg
            .at(0)
            .list()
            .iter()
            .enumerate()
            .map(|(k, peers)| {
                let rules: Vec<Val> = peers.list().iter().map(|p| Val::L(vec![p.clone(), Val::L(vec![Val::I(1)])])).collect();
                mk_policy(k, &rules)
            })
            .collect(),
        ctrs: (0..NPEER).map(|_| Arc::new(std::sync::atomic::AtomicU64::new(0))).collect(),
        lims,
        subs: (0..NSUB).map(|_| Mutex::new(None)).collect(),
    };
    let progs = case.at(1).list();
    let n = progs.len();
    let sched = Arc::new(Sched::new(n));
    std::thread::scope(|sc| {
        for (i, prog) in progs.iter().enumerate() {
            let sched = sched.clone();
            let w = &w;
            sc.spawn(move || {
                let s2 = sched.clone();
                verif_sched::install(Box::new(move |_id| s2.park(i)));
                let r = std::panic::catch_unwind(std::panic::AssertUnwindSafe(|| {
                    for op in prog.list() {
                        verif_sched::point(0);
                        sub_do_op(w, op);
                    }
                }));
                sched.finish(i);
                if let Err(e) = r {
                    std::panic::resume_unwind(e);
                }
            });
        }
        for t in case.at(2).list() {
            let i = t.usize();
            if i < n {
                sched.grant(i);
            }
        }
        for i in 0..n {
            while sched.grant(i) {}
        }
    });
    let mut subs = Vec::new();
    for slot in &w.subs {
        match slot.lock().unwrap().as_mut() {
            Some(sub) => subs.push(sub_drain(&w, sub)),
            None => subs.push(Val::L(vec![])),
        }
    }
    let mut rib_pre = Vec::new();
    let mut rib_post = Vec::new();
    for shard in &w.tm.shards {
        let t = shard.lock().unwrap();
        for r in t.rtable.iter_reach(Family::IPV4) {
            rib_pre.push(Val::L(vec![sub_key(&w, &r.source, &r.net), sub_tok(&w, &r.attr), Val::b(r.source.is_stale())]));
        }
        for r in t.rtable.iter_reach_post(Family::IPV4) {
            rib_post.push(Val::L(vec![sub_key(&w, &r.source, &r.net), sub_tok(&w, &r.attr)]));
        }
    }
    rib_pre.sort_by_key(|x| format!("{}", x));
    rib_post.sort_by_key(|x| format!("{}", x));
    Val::L(vec![Val::L(rib_pre), Val::L(rib_post), Val::L(subs)])
}

#[test]
fn verif_sub_cases() {
    val::run_cases(run_sub_case);
}
