// harness stub: nothing here yet
