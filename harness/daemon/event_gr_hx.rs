// Graceful-restart glue of daemon/src/event/mod.rs driven on real Global /
// TableManager / PeerContext / PeerSession values (properties C10, C11).
// Body of `event::verif_hx::gr_glue`.
//
// case = [0, gr_peers, duration, probe_fams, events]      restarting-speaker glue (C11)
//   events: [0, rdinput] | [1, f, net, peer, pid, 0]
// case = [1, events]                                      helper-side glue (C10): real PeerSession::run() over loopback TCP
// case = [2, reason, nbit]                                 gr_on_disconnect alone (C10)
//   events: [0, fams, local_gr, remote_gr, local_llgr, remote_llgr] up (capabilities; gr = [[fams], restart, nbit], llgr = [[f, t]..]) | [1, f, id, no_llgr, llgr_comm] announce | [2, f] eor
//           | [3, reason] down | [4] failed connect | [5] restart timer | [6, f] llgr timer
//           | [7] force_down | [8, b] admin_down | [9] second connection opens | [10] second connection goes away
//           | [11, remote_gr, remote_llgr, hold] the neighbour's OPEN on the second connection
use super::super::*;

#[allow(dead_code)]
mod val {
    include!(concat!(env!("VERIF_HX_DIR"), "/common/val.rs"));
}
use val::Val;

fn fam_of(v: &Val) -> Family {
    let x = v.u32();
    Family::new((x >> 16) as u16, (x & 0xff) as u8)
}
fn fam_code(f: &Family) -> i128 {
    (((f.afi() as u32) << 16) | f.safi() as u32) as i128
}
fn peer_addr(p: u8) -> IpAddr {
    IpAddr::V4(std::net::Ipv4Addr::new(192, 0, 2, p))
}
fn net_of(n: u32) -> packet::Nlri {
    packet::Nlri::V4(packet::bgp::Ipv4Net {
        addr: std::net::Ipv4Addr::new(10, 1, n as u8, 0),
        mask: 24,
    })
}
fn net_code(n: &packet::Nlri) -> i128 {
    match n {
        packet::Nlri::V4(p) => p.addr.octets()[2] as i128,
        _ => -3,
    }
}

fn mk_global() -> GlobalHandle {
    let (tx, _rx) = mpsc::unbounded_channel();
    let (bfd_tx, _bfd_rx) = mpsc::unbounded_channel();
    let mut g = Global::new(tx, bfd_tx);
    g.asn = 65001;
    g.router_id = std::net::Ipv4Addr::new(1, 0, 0, 1);
    Arc::new(tokio::sync::RwLock::new(g))
}

fn mk_context() -> Arc<std::sync::Mutex<PeerContext>> {
    let fsm = crate::fsm::PeerFsm::new(
        u32::from(std::net::Ipv4Addr::new(1, 0, 0, 1)),
        65001,
        vec![],
        90,
        0,
        FnvHashMap::default(),
    );
    let conn_arbiter = Arc::new(std::sync::Mutex::new(ConnArbiter::new(fsm)));
    Arc::new(std::sync::Mutex::new(PeerContext {
        conn_arbiter,
        active_connect_cancel_tx: None,
        active_connect_join_handle: None,
        gr_state: crate::gr::GrState::new(),
        gr_restart_timer: None,
        llgr_family_timers: FnvHashMap::default(),
        rtc_state: crate::rtc::RtcState::new(),
        rtc_eor_timer: None,
    }))
}

fn mk_source(addr: IpAddr, id: u8) -> Arc<table::Source> {
    Arc::new(table::Source::new(
        addr,
        IpAddr::V4(std::net::Ipv4Addr::new(192, 0, 2, 254)),
        65100 + id as u32,
        65001,
        std::net::Ipv4Addr::new(0, 0, 0, id),
        PeerRole::Ebgp,
    ))
}

/// everything distributed to the observer peer since the last call
fn drain(rx: &mut mpsc::UnboundedReceiver<ToPeerEvent>) -> Vec<(i128, i128, i128)> {
    let mut v = Vec::new();
    while let Ok(ev) = rx.try_recv() {
        if let ToPeerEvent::NlriChange(c) = ev {
            v.push((fam_code(&c.family), net_code(&c.net), c.current_paths.len() as i128));
        }
    }
    v.sort();
    v
}

/// The deferring flag of a family is not readable from outside the table crate:
/// insert a scratch prefix through the public path; it is distributed iff the
/// family is not deferring.  The scratch route is withdrawn again.
fn probe_deferring(
    tables: &TableHandle,
    rx: &mut mpsc::UnboundedReceiver<ToPeerEvent>,
    f: Family,
) -> bool {
    let src = mk_source(IpAddr::V4(std::net::Ipv4Addr::new(198, 51, 100, 1)), 250);
    tables.insert_route(
        src.clone(),
        f,
        packet::PathNlri { path_id: 0, nlri: net_of(255) },
        None,
        Arc::new(Vec::new()),
        None,
        0,
    );
    let seen = drain(rx).iter().any(|(_, n, k)| *n == 255 && *k > 0);
    tables.remove_route(src, f, packet::PathNlri { path_id: 0, nlri: net_of(255) }, None, 0);
    let _ = drain(rx);
    !seen
}

async fn run_rs_case(l: &[Val]) -> Val {
    let global = mk_global();
    let tables: TableHandle = Arc::new(TableManager::new(1));
    let mut rx = tables.register_peer(
        IpAddr::V4(std::net::Ipv4Addr::new(203, 0, 113, 1)),
        FnvHashSet::default(),
        |_| {},
    );
    let probe_fams: Vec<Family> = l[3].list().iter().map(fam_of).collect();

    // start-up block of serve(): new(), start_deferral_families, selection_deferral = Some
    let mut gr_peers: fnv::FnvHashMap<IpAddr, Vec<Family>> = fnv::FnvHashMap::default();
    for e in l[1].list() {
        gr_peers.insert(peer_addr(e.at(0).u8()), e.at(1).list().iter().map(fam_of).collect());
    }
    let dur = l[2].list().first().map(|d| Duration::from_secs(d.u64()));
    let (deferral, init_outputs) = crate::gr::RestartingDeferral::new(gr_peers, dur);
    if !deferral.is_completed() {
        for output in &init_outputs {
            if let crate::gr::RestartingOutput::DeferFamilies(families) = output {
                tables.start_deferral_families(families);
            }
        }
        global.write().await.selection_deferral = Some(deferral);
    }

    let mut sessions: FnvHashMap<u8, PeerSession> = FnvHashMap::default();
    let mut sources: FnvHashMap<u8, Arc<table::Source>> = FnvHashMap::default();

    let flags = |tables: &TableHandle, rx: &mut mpsc::UnboundedReceiver<ToPeerEvent>| -> Val {
        Val::L(probe_fams.iter().map(|f| Val::b(probe_deferring(tables, rx, *f))).collect())
    };

    let started = global.read().await.selection_deferral.is_some();
    let flags0 = flags(&tables, &mut rx);
    let mut obs = Vec::new();
    for ev in l[4].list() {
        let e = ev.list();
        match e[0].int() {
            0 => {
                let i = e[1].list();
                match i[0].int() {
                    0 => {
                        // the session comes up through the real path: apply_outputs on the FSM's
                        // SessionNegotiated / SessionEstablished outputs (negotiate_gr, the effects it
                        // raises), then process_effects.  Both sides advertise GR for exactly `fams`.
                        let p = i[1].u8();
                        let fams: Vec<Family> = i[2].list().iter().map(fam_of).collect();
                        let mut caps: Vec<packet::Capability> = if fams.is_empty() {
                            vec![packet::Capability::MultiProtocol(Family::IPV4)]
                        } else {
                            fams.iter().map(|f| packet::Capability::MultiProtocol(*f)).collect()
                        };
                        if !fams.is_empty() {
                            caps.push(packet::Capability::GracefulRestart {
                                flags: 0,
                                restart_time: 90,
                                families: fams.iter().map(|f| (*f, 0u8)).collect(),
                            });
                        }
                        let tables_c = tables.clone();
                        let session = sessions.entry(p).or_insert_with(|| {
                            PeerSession::new_for_test(peer_addr(p), mk_context(), tables_c)
                        });
                        session.local_cap = caps.clone();
                        let codec = bgp::PeerCodec::negotiate(&caps, &caps);
                        let role = session.role;
                        let outputs = vec![
                            crate::fsm::PeerFsmOutput::Connection(
                                role,
                                crate::fsm::Output::SessionNegotiated(codec),
                            ),
                            crate::fsm::PeerFsmOutput::Connection(
                                role,
                                crate::fsm::Output::SessionEstablished {
                                    remote_asn: 65100 + p as u32,
                                    remote_id: p as u32,
                                    remote_holdtime: 90,
                                    remote_capabilities: caps,
                                    effective_max: FnvHashMap::default(),
                                },
                            ),
                        ];
                        let local_sa: SocketAddr = "192.0.2.254:179".parse().unwrap();
                        let remote_sa = SocketAddr::new(peer_addr(p), 40000);
                        let (_step, effects) = session.apply_outputs(outputs, local_sa, remote_sa).await;
                        session.process_effects(effects, &global).await;
                    }
                    1 => {
                        let p = i[1].u8();
                        let tables_c = tables.clone();
                        let session = sessions.entry(p).or_insert_with(|| {
                            PeerSession::new_for_test(peer_addr(p), mk_context(), tables_c)
                        });
                        session
                            .process_effects(
                                vec![GlobalEffect::GrEorReceived { family: fam_of(&i[2]) }],
                                &global,
                            )
                            .await;
                    }
                    2 => {
                        // call site in PeerSession::run(), after apply_disconnect
                        let remote_addr = peer_addr(i[1].u8());
                        let rd_outputs = {
                            let mut server = global.write().await;
                            if let Some(rd) = &mut server.selection_deferral {
                                rd.process(crate::gr::RestartingInput::PeerWithdrawn(remote_addr))
                            } else {
                                vec![]
                            }
                        };
                        let _ = process_restarting_outputs(rd_outputs, &global, &tables).await;
                    }
                    3 => {
                        gr_selection_deferral_timer_expired(global.clone(), tables.clone()).await;
                    }
                    t => panic!("verif: bad rd input {}", t),
                }
            }
            1 => {
                assert!(!e[5].bool(), "filtered inserts are driven through the table harness");
                let p = e[3].u8();
                let src = sources.entry(p).or_insert_with(|| mk_source(peer_addr(p), p)).clone();
                tables.insert_route(
                    src,
                    fam_of(&e[1]),
                    packet::PathNlri { path_id: e[4].u32(), nlri: net_of(e[2].u32()) },
                    None,
                    Arc::new(Vec::new()),
                    None,
                    0,
                );
            }
            t => panic!("verif: bad event {}", t),
        }
        let ann = drain(&mut rx);
        let (rd_some, timer_some) = {
            let g = global.read().await;
            (g.selection_deferral.is_some(), g.selection_deferral_timer.is_some())
        };
        obs.push(Val::L(vec![
            Val::b(rd_some),
            Val::b(timer_some),
            flags(&tables, &mut rx),
            Val::L(ann
                .into_iter()
                .map(|(f, n, k)| Val::L(vec![Val::I(f), Val::I(n), Val::I(k)]))
                .collect()),
        ]));
    }
    Val::L(vec![Val::b(started), flags0, Val::L(obs)])
}

// ------------------------------------------------------------------ C10
// Every session of a case is a REAL PeerSession::run() (session_loop, teardown decisions,
// apply_disconnect, ...) over a loopback TCP pair; the harness is the neighbour on the other
// end of the socket: it sends OPEN / KEEPALIVE / UPDATE / End-of-RIB / NOTIFICATION, closes the
// socket, goes silent, or has the session closed administratively.
const PROBE_FAMS: [Family; 3] = [Family::IPV4, Family::IPV6, Family::IPV4_MC];
// always negotiated and never announced: its prefix limit of 0 is the trigger for a local
// Cease / Maximum-Prefixes NOTIFICATION
const HIDDEN: Family = Family::IPV6_MC;
const PEER_ASN: u32 = 65101;

fn gr_nlri(f: Family, n: u32) -> packet::Nlri {
    if f.afi() == Family::AFI_IP6 {
        packet::Nlri::V6(packet::bgp::Ipv6Net {
            addr: std::net::Ipv6Addr::new(0x2001, 0xdb8, 0, n as u16, 0, 0, 0, 0),
            mask: 64,
        })
    } else {
        net_of(n)
    }
}
fn gr_nlri_code(n: &packet::Nlri) -> i128 {
    match n {
        packet::Nlri::V4(p) => p.addr.octets()[2] as i128,
        packet::Nlri::V6(p) => p.addr.segments()[3] as i128,
        _ => -3,
    }
}
fn gr_nexthop(f: Family) -> bgp::Nexthop {
    if f.afi() == Family::AFI_IP6 {
        bgp::Nexthop::V6("2001:db8:ffff::1".parse().unwrap())
    } else {
        bgp::Nexthop::V4(std::net::Ipv4Addr::new(192, 0, 2, 1))
    }
}

// gr_on_disconnect alone: does helper mode apply
// [2, kind, code, subcode, nbit]; kind: 0 no reason recorded, 1 IoError, 2 NOTIFICATION received,
// 3 NOTIFICATION sent, 4 hold timer, 5 FSM error, 6 admin shutdown
fn run_gr_on_disconnect_case(l: &[Val]) -> Val {
    use crate::fsm::SessionDownReason as R;
    let gr = NegotiatedGr {
        families: vec![Family::IPV4],
        restart_time: Duration::from_secs(120),
        notification_enabled: l[4].bool(),
    };
    let notif = || {
        bgp::Message::Notification(rustybgp_packet::Notification::from_notification(
            l[2].u8(),
            l[3].u8(),
            Vec::new(),
        ))
    };
    let reason = match l[1].int() {
        0 => None,
        1 => Some(R::IoError),
        2 => Some(R::RemoteNotification(notif())),
        3 => Some(R::LocalNotification(notif())),
        4 => Some(R::HoldTimerExpired),
        5 => Some(R::FsmError),
        6 => Some(R::AdminShutdown),
        t => panic!("verif: bad reason kind {}", t),
    };
    Val::b(gr_on_disconnect(&reason, gr).is_some())
}

fn route_attrs(generation: i128, no_llgr: bool, llgr_comm: bool) -> Arc<Vec<packet::Attribute>> {
    let mut comm: Vec<u8> = (0x0001_0000u32 | generation as u32).to_be_bytes().to_vec();
    if no_llgr {
        comm.extend_from_slice(&0xffff_0007u32.to_be_bytes());
    }
    if llgr_comm {
        comm.extend_from_slice(&0xffff_0006u32.to_be_bytes());
    }
    let mut aspath = vec![2u8, 1u8];
    aspath.extend_from_slice(&PEER_ASN.to_be_bytes());
    Arc::new(vec![
        packet::Attribute::new_with_value(packet::Attribute::ORIGIN, 0).unwrap(),
        packet::Attribute::new_with_bin(packet::Attribute::AS_PATH, aspath).unwrap(),
        packet::Attribute::new_with_bin(packet::Attribute::COMMUNITY, comm).unwrap(),
    ])
}

fn comm_values(attrs: &[packet::Attribute]) -> Vec<u32> {
    attrs
        .iter()
        .find(|a| a.code() == packet::Attribute::COMMUNITY)
        .and_then(|a| a.binary())
        .map(|bin| {
            bin.chunks(4)
                .filter_map(|x| x.try_into().ok().map(u32::from_be_bytes))
                .collect()
        })
        .unwrap_or_default()
}

fn caps_of(fams: &[Family], asn: u32, gr: &Val, llgr: &Val) -> Vec<packet::Capability> {
    let mut mp: Vec<Family> = fams.to_vec();
    mp.push(HIDDEN);
    let mut c: Vec<packet::Capability> =
        mp.iter().map(|f| packet::Capability::MultiProtocol(*f)).collect();
    c.push(packet::Capability::FourOctetAsNumber(asn));
    c.push(packet::Capability::AddPath(mp.iter().map(|f| (*f, 3u8)).collect()));
    if let Some(g) = gr.list().first() {
        c.push(packet::Capability::GracefulRestart {
            // flags as given: 0x4 = N bit, 0x8 = R bit
            flags: g.at(2).u8(),
            restart_time: g.at(1).u16(),
            families: g.at(0).list().iter().map(|f| (fam_of(f), 0u8)).collect(),
        });
    }
    if let Some(l) = llgr.list().first() {
        c.push(packet::Capability::LongLivedGracefulRestart(
            l.list().iter().map(|p| (fam_of(p.at(0)), 0u8, p.at(1).u32())).collect(),
        ));
    }
    c
}

fn other_role(r: crate::fsm::Role) -> crate::fsm::Role {
    match r {
        crate::fsm::Role::Active => crate::fsm::Role::Passive,
        crate::fsm::Role::Passive => crate::fsm::Role::Active,
    }
}

/// how long the end of a session task is waited for once its cause has been given (it is immediate; a session that
/// does not end is a failure of the case, and many cases may fail)
const END_WAIT: u64 = 4;

async fn settle() {
    for _ in 0..50 {
        tokio::task::yield_now().await;
    }
}

/// the neighbour's end of one live session
struct Live {
    client: TcpStream,
    rxbuf: bytes::BytesMut,
    peer_codec: bgp::PeerCodec,
    fams: Vec<Family>,
    counter: Arc<MessageCounter>,
    base: u64,
    sent: u64,
    handle: tokio::task::JoinHandle<()>,
    generation: i128,
    neg: Val,
    role: crate::fsm::Role,
}

impl Live {
    async fn send(&mut self, msgs: &[bgp::Message]) {
        use tokio::io::AsyncWriteExt;
        let mut buf = bytes::BytesMut::new();
        for m in msgs {
            self.sent += self.peer_codec.encode_to(m, &mut buf).expect("verif: encode") as u64;
        }
        self.client.write_all(&buf).await.expect("verif: write");
    }
    /// until the session task has taken everything sent so far off the wire and is idle again
    async fn sync(&self) {
        let mut spins = 0u32;
        while self.counter.total.load(Ordering::Relaxed) < self.base + self.sent {
            tokio::time::sleep(Duration::from_millis(1)).await;
            assert!(!self.handle.is_finished(), "verif: the session ended while messages were on their way");
            spins += 1;
            assert!(spins < 5000, "verif: the session did not read the messages");
        }
        settle().await;
    }
    /// next message from the session, None when it closed the socket
    async fn recv(&mut self) -> Option<bgp::Message> {
        use tokio::io::AsyncReadExt;
        loop {
            match self.peer_codec.try_parse(&mut self.rxbuf) {
                Ok(Some(pm)) => {
                    let msgs: Vec<bgp::Message> = bgp::validate_message(pm, true)
                        .unwrap_or_else(|_| panic!("verif: neighbour-side validation failed"))
                        .into_iter()
                        .collect();
                    if let Some(m) = msgs.into_iter().next() {
                        return Some(m);
                    }
                }
                Ok(None) => {}
                Err(_) => panic!("verif: neighbour-side parse error"),
            }
            let n = tokio::time::timeout(Duration::from_secs(10), self.client.read_buf(&mut self.rxbuf))
                .await
                .expect("verif: timeout reading from the session")
                .unwrap_or(0);
            if n == 0 {
                return None;
            }
        }
    }
    /// the neighbour closes the socket, then the session ends
    async fn finished_after_close(self) {
        let Live { client, handle, .. } = self;
        drop(client);
        tokio::time::timeout(Duration::from_secs(END_WAIT), handle)
            .await
            .expect("verif: the connection did not end")
            .expect("verif: session task panicked");
        settle().await;
    }
    async fn finished(self) {
        self.finished_within(END_WAIT).await
    }
    async fn finished_within(self, secs: u64) {
        let Live { client, handle, .. } = self;
        tokio::time::timeout(Duration::from_secs(secs), handle)
            .await
            .expect("verif: the session did not end")
            .expect("verif: session task panicked");
        drop(client);
        settle().await;
    }
}

/// A new connection of the neighbour, taken through the real accept_connection() (which builds
/// the PeerSession from the Peer record, registers its close channel with the ConnArbiter and
/// refuses an admin-down peer or a second connection) and run by the real PeerSession::run().
/// Only the local capabilities of the case are put into the Peer record first (they differ from
/// session to session), together with a PeerFsm that sends them.
async fn start_session(
    global: &GlobalHandle,
    tables: &TableHandle,
    addr: IpAddr,
    local_cap: Vec<packet::Capability>,
    role: crate::fsm::Role,
    active_tx: &mpsc::UnboundedSender<TcpStream>,
) -> (TcpStream, Option<(Arc<MessageCounter>, tokio::task::JoinHandle<()>)>) {
    let listener = TcpListener::bind("127.0.0.1:0").await.unwrap();
    let laddr = listener.local_addr().unwrap();
    let (client, server) = tokio::join!(TcpStream::connect(laddr), listener.accept());
    let client = client.unwrap();
    let server = server.unwrap().0;
    // no Nagle / delayed-ACK stalls (40 ms each) on the loopback pair
    client.set_nodelay(true).unwrap();
    server.set_nodelay(true).unwrap();
    {
        let mut g = global.write().await;
        let peer = g.peers.get_mut(&addr).unwrap();
        let live = {
            let ctx = peer.context.lock().unwrap();
            let arb = ctx.conn_arbiter.lock().unwrap();
            arb.passive_close_tx.is_some() || arb.active_close_tx.is_some()
        };
        if !live {
            peer.config.local_cap = local_cap.clone();
            let fsm = crate::fsm::PeerFsm::new(
                u32::from(std::net::Ipv4Addr::new(1, 0, 0, 1)),
                65001,
                local_cap,
                90,
                0,
                FnvHashMap::default(),
            );
            peer.context.lock().unwrap().conn_arbiter =
                Arc::new(std::sync::Mutex::new(ConnArbiter::new(fsm)));
        }
    }
    match accept_connection(global, tables, server, role).await {
        None => (client, None),
        Some(s) => {
            let counter = Arc::clone(&s.counter_rx);
            let handle = tokio::spawn(s.run(global.clone(), active_tx.clone()));
            (client, Some((counter, handle)))
        }
    }
}

fn observe(
    context: &Arc<std::sync::Mutex<PeerContext>>,
    tables: &TableHandle,
    addr: IpAddr,
    neg: &Val,
) -> Val {
    let (restarting, rt, mut lts, mut dead) = {
        let ctx = context.lock().unwrap();
        (
            ctx.gr_state.is_peer_restarting(),
            ctx.gr_restart_timer.as_ref().is_some_and(|t| !t.is_closed()),
            ctx.llgr_family_timers
                .iter()
                .filter(|(_, t)| !t.is_closed())
                .map(|(f, _)| fam_code(f))
                .collect::<Vec<_>>(),
            // entries whose timer task is gone (it expired): present in the map, not an armed timer
            ctx.llgr_family_timers
                .iter()
                .filter(|(_, t)| t.is_closed())
                .map(|(f, _)| fam_code(f))
                .collect::<Vec<_>>(),
        )
    };
    lts.sort();
    dead.sort();
    let mut routes: Vec<Vec<i128>> = Vec::new();
    for f in PROBE_FAMS {
        for d in tables.collect_paths(table::TableQuery::AdjIn(addr), f, vec![], true) {
            for p in d.paths {
                let comm = comm_values(&p.attr);
                let g = comm
                    .iter()
                    .find(|c| *c >> 16 == 1)
                    .map(|c| (*c & 0xffff) as i128)
                    .unwrap_or(-1);
                routes.push(vec![
                    fam_code(&f),
                    gr_nlri_code(&d.net) * 2 + p.remote_path_id as i128,
                    g,
                    p.source.is_stale() as i128,
                    p.source.is_llgr_stale() as i128,
                    comm.contains(&0xffff_0007) as i128,
                    comm.contains(&0xffff_0006) as i128,
                ]);
            }
        }
    }
    routes.sort();
    Val::L(vec![
        Val::b(restarting),
        Val::b(rt),
        Val::L(lts.into_iter().map(Val::I).collect()),
        Val::L(routes
            .into_iter()
            .map(|r| Val::L(r.into_iter().map(Val::I).collect()))
            .collect()),
        neg.clone(),
        Val::L(dead.into_iter().map(Val::I).collect()),
    ])
}

/// what apply_outputs negotiates for these capabilities, observed on a throw-away session of its own
async fn negotiation_probe(
    addr: IpAddr,
    local_cap: &[packet::Capability],
    remote_cap: &[packet::Capability],
) -> Val {
    let mut probe = PeerSession::new_for_test(addr, mk_context(), Arc::new(TableManager::new(1)));
    probe.local_cap = local_cap.to_vec();
    let codec = bgp::PeerCodec::negotiate(local_cap, remote_cap);
    let role = probe.role;
    let outputs = vec![
        crate::fsm::PeerFsmOutput::Connection(role, crate::fsm::Output::SessionNegotiated(codec)),
        crate::fsm::PeerFsmOutput::Connection(
            role,
            crate::fsm::Output::SessionEstablished {
                remote_asn: PEER_ASN,
                remote_id: 1,
                remote_holdtime: 90,
                remote_capabilities: remote_cap.to_vec(),
                effective_max: FnvHashMap::default(),
            },
        ),
    ];
    let sa: SocketAddr = "192.0.2.254:179".parse().unwrap();
    let _ = probe.apply_outputs(outputs, sa, sa).await;
    Val::L(vec![
        Val::opt(probe.negotiated_gr.as_ref().map(|g| {
            Val::L(vec![
                Val::L(g.families.iter().map(|f| Val::I(fam_code(f))).collect()),
                Val::n(g.restart_time.as_secs()),
                Val::b(g.notification_enabled),
            ])
        })),
        Val::opt(probe.negotiated_llgr.as_ref().map(|l| {
            Val::L(l.families
                .iter()
                .map(|(f, d)| Val::L(vec![Val::I(fam_code(f)), Val::n(d.as_secs())]))
                .collect())
        })),
    ])
}

/// the OPEN exchange as the neighbour, up to the point where the session has finished establishing
async fn open_exchange(lv: &mut Live, remote_cap: &[packet::Capability], hold: u16) {
    let their_open = loop {
        match lv.recv().await {
            Some(bgp::Message::Open(o)) => break o,
            Some(_) => {}
            None => panic!("verif: the session closed before its OPEN"),
        }
    };
    let open = bgp::Message::Open(bgp::Open {
        as_number: PEER_ASN,
        router_id: u32::from(std::net::Ipv4Addr::new(192, 0, 2, 1)),
        holdtime: HoldTime::new(hold).expect("hold time"),
        capability: remote_cap.to_vec(),
    });
    lv.send(&[open, bgp::Message::Keepalive]).await;
    lv.peer_codec = bgp::PeerCodec::negotiate(remote_cap, &their_open.capability);
    // Established is over (on_established, the effects) once the End-of-RIB of every family of the
    // session has been sent to us
    let mut eors = 0;
    let want = lv.fams.len() + 1;
    while eors < want {
        match lv.recv().await {
            Some(bgp::Message::Update(bgp::Update::EndOfRib(_))) => eors += 1,
            Some(_) => {}
            None => panic!("verif: the session closed during establishment"),
        }
    }
}

async fn run_helper_case(l: &[Val]) -> Val {
    let global = mk_global();
    let tables: TableHandle = Arc::new(TableManager::new(1));
    // the neighbour is the Peer record of the address its connections come from
    let addr = IpAddr::V4(std::net::Ipv4Addr::LOCALHOST);
    let (active_tx, _active_rx) = mpsc::unbounded_channel::<TcpStream>();
    {
        let mut limits: FnvHashMap<Family, u32> = FnvHashMap::default();
        limits.insert(HIDDEN, 0);
        let params = PeerParams {
            remote_addr: addr,
            remote_port: Global::BGP_PORT,
            expected_remote_asn: 0,
            local_asn: 0,
            passive: true,
            rs_client: false,
            route_reflector: RouteReflectorConfig::default(),
            delete_on_disconnected: false,
            admin_down: false,
            state: SessionState::Idle,
            holdtime: PeerParams::DEFAULT_HOLD_TIME,
            connect_retry_time: PeerParams::DEFAULT_CONNECT_RETRY_TIME,
            multihop_ttl: None,
            ttl_security: None,
            password: None,
            families: FnvHashMap::default(),
            send_max: FnvHashMap::default(),
            prefix_limits: limits,
            graceful_restart: None,
            llgr: None,
            bfd_config: None,
            neighbor_interface: None,
            bind_interface: None,
            export_policy: None,
        };
        global.write().await.add_peer(params, None).expect("add_peer");
    }
    let context = Arc::clone(&global.read().await.peers.get(&addr).unwrap().context);
    let mut live: Option<Live> = None;
    // a second connection of the same neighbour (Role::Active slot of the ConnArbiter), still before Established
    let mut sibling: Option<Live> = None;
    let mut cur_fams: Vec<Family> = vec![Family::IPV4];
    let mut cur_local_cap: Vec<packet::Capability> = caps_of(&cur_fams, 65001, &Val::L(vec![]), &Val::L(vec![]));
    // [1, events, role]: the slot of the ConnArbiter the sessions of the history use (0 / absent: Role::Passive,
    // 1: Role::Active); the second connection uses the other one
    // [1, events, role, 1]: the restart / LLGR timers are not fired through their sender, their negotiated time runs out
    let real_time = l.len() > 3 && l[3].int() == 1;
    let prim_role = if l.len() > 2 && l[2].int() == 1 { crate::fsm::Role::Active } else { crate::fsm::Role::Passive };
    let mut generation: i128 = 0;
    let mut obs = Vec::new();
    for ev in l[1].list() {
        let e = ev.list();
        match e[0].int() {
            0 => {
                // [0, fams, local_gr, remote_gr, local_llgr, remote_llgr, hold]
                if live.is_none() {
                    generation += 1;
                    let fams: Vec<Family> = e[1].list().iter().map(fam_of).collect();
                    let local_cap = caps_of(&fams, 65001, &e[2], &e[4]);
                    let remote_cap = caps_of(&fams, PEER_ASN, &e[3], &e[5]);
                    let neg = negotiation_probe(addr, &local_cap, &remote_cap).await;
                    cur_local_cap = local_cap.clone();
                    cur_fams = fams.clone();
                    let (client, started) =
                        start_session(&global, &tables, addr, local_cap, prim_role, &active_tx).await;
                    let Some((counter, handle)) = started else {
                        // refused (admin-down peer): the neighbour sees the socket close
                        generation -= 1;
                        drop(client);
                        settle().await;
                        obs.push(observe(&context, &tables, addr, &Val::L(vec![])));
                        continue;
                    };
                    let base = counter.total.load(Ordering::Relaxed);
                    let mut lv = Live {
                        client,
                        rxbuf: bytes::BytesMut::new(),
                        peer_codec: bgp::PeerCodec::new(),
                        fams: fams.clone(),
                        counter,
                        base,
                        sent: 0,
                        handle,
                        generation,
                        neg,
                        role: prim_role,
                    };
                    open_exchange(&mut lv, &remote_cap, e[6].u16()).await;
                    lv.sync().await;
                    live = Some(lv);
                }
            }
            1 => {
                if let Some(lv) = live.as_mut() {
                    let f = fam_of(&e[1]);
                    if lv.fams.contains(&f) {
                        let id = e[2].u32();
                        let m = bgp::Message::Update(bgp::Update::Reach {
                            family: f,
                            entries: vec![packet::PathNlri { path_id: id % 2, nlri: gr_nlri(f, id / 2) }],
                            nexthop: Some(gr_nexthop(f)),
                            attr: route_attrs(lv.generation, e[3].bool(), e[4].bool()),
                        });
                        lv.send(&[m]).await;
                        lv.sync().await;
                    }
                }
            }
            2 => {
                if let Some(lv) = live.as_mut() {
                    let f = fam_of(&e[1]);
                    if lv.fams.contains(&f) {
                        lv.send(&[bgp::Message::eor(f)]).await;
                        lv.sync().await;
                    }
                }
            }
            3 => {
                if let Some(mut lv) = live.take() {
                    use rustybgp_packet::Notification as N;
                    match e[1].int() {
                        0 => {
                            // TCP failure: the neighbour's socket goes away
                            let Live { client, handle, .. } = lv;
                            drop(client);
                            tokio::time::timeout(Duration::from_secs(END_WAIT), handle)
                                .await
                                .expect("verif: the session did not end")
                                .expect("verif: session task panicked");
                            settle().await;
                        }
                        1 => {
                            lv.send(&[bgp::Message::Notification(N::CeaseAdministrativeReset)]).await;
                            lv.finished().await;
                        }
                        2 => {
                            lv.send(&[bgp::Message::Notification(N::CeaseHardReset)]).await;
                            lv.finished().await;
                        }
                        8 => {
                            // a NOTIFICATION that is not a Cease (UPDATE Message Error / Malformed Attribute List)
                            lv.send(&[bgp::Message::Notification(N::from_notification(3, 1, Vec::new()))]).await;
                            lv.finished().await;
                        }
                        3 => {
                            // one route of the family whose prefix limit is 0
                            let m = bgp::Message::Update(bgp::Update::Reach {
                                family: HIDDEN,
                                entries: vec![packet::PathNlri { path_id: 0, nlri: gr_nlri(HIDDEN, 9) }],
                                nexthop: Some(gr_nexthop(HIDDEN)),
                                attr: route_attrs(lv.generation, false, false),
                            });
                            lv.send(&[m]).await;
                            lv.finished().await;
                        }
                        5 => {
                            // not a BGP message: header error, a NOTIFICATION that is not a Cease
                            use tokio::io::AsyncWriteExt;
                            lv.client.write_all(&[0u8; 19]).await.expect("verif: write");
                            lv.finished().await;
                        }
                        6 => {
                            // silence until the (3 s) hold timer of the session expires
                            lv.finished_within(15).await;
                        }
                        7 => {
                            // disable_peer: the close channel accept_connection registered
                            let tx = {
                                let ctx = context.lock().unwrap();
                                let mut arb = ctx.conn_arbiter.lock().unwrap();
                                match lv.role {
                                    crate::fsm::Role::Passive => arb.passive_close_tx.take(),
                                    crate::fsm::Role::Active => arb.active_close_tx.take(),
                                }
                            };
                            let _ = tx.expect("verif: no close channel").send(CloseReason::AdminShutdown);
                            lv.finished().await;
                        }
                        t => panic!("verif: reason {} cannot be produced on a socket", t),
                    }
                }
            }
            4 => {
                // a connection that ends before Established: the neighbour connects and leaves
                let (client, started) = start_session(
                    &global,
                    &tables,
                    addr,
                    caps_of(&[Family::IPV4], 65001, &Val::L(vec![]), &Val::L(vec![])),
                    live.as_ref().map_or(prim_role, |lv| lv.role),
                    &active_tx,
                )
                .await;
                drop(client);
                if let Some((_counter, handle)) = started {
                    tokio::time::timeout(Duration::from_secs(END_WAIT), handle)
                        .await
                        .expect("verif: the connection attempt did not end")
                        .expect("verif: session task panicked");
                }
            }
            5 if real_time => {
                // the negotiated restart time (1 s) really runs out: wait until the timer task is gone
                let armed = |c: &Arc<std::sync::Mutex<PeerContext>>| {
                    c.lock().unwrap().gr_restart_timer.as_ref().is_some_and(|t| !t.is_closed())
                };
                let mut spins = 0u32;
                while armed(&context) {
                    tokio::time::sleep(Duration::from_millis(5)).await;
                    spins += 1;
                    assert!(spins < 1200, "verif: the restart timer did not expire");
                }
            }
            6 if real_time => {
                let f = fam_of(&e[1]);
                let armed = |c: &Arc<std::sync::Mutex<PeerContext>>| {
                    c.lock().unwrap().llgr_family_timers.get(&f).is_some_and(|t| !t.is_closed())
                };
                let mut spins = 0u32;
                while armed(&context) {
                    tokio::time::sleep(Duration::from_millis(5)).await;
                    spins += 1;
                    assert!(spins < 1200, "verif: the LLGR timer did not expire");
                }
            }
            5 => {
                // the timer task is told to run its handler now; the slot is left as a wall-clock expiry leaves it:
                // still Some, its task gone (the expiry handlers do not touch the slot)
                let tx = {
                    let mut ctx = context.lock().unwrap();
                    if ctx.gr_restart_timer.as_ref().is_some_and(|t| !t.is_closed()) {
                        let (dead_tx, dead_rx) = tokio::sync::oneshot::channel::<()>();
                        drop(dead_rx);
                        ctx.gr_restart_timer.replace(dead_tx)
                    } else {
                        None
                    }
                };
                if let Some(tx) = tx {
                    let _ = tx.send(());
                }
            }
            6 => {
                // likewise: llgr_timer_expired does not remove the family's entry from llgr_family_timers
                let f = fam_of(&e[1]);
                let tx = {
                    let mut ctx = context.lock().unwrap();
                    if ctx.llgr_family_timers.get(&f).is_some_and(|t| !t.is_closed()) {
                        let (dead_tx, dead_rx) = tokio::sync::oneshot::channel::<()>();
                        drop(dead_rx);
                        ctx.llgr_family_timers.insert(f, dead_tx)
                    } else {
                        None
                    }
                };
                if let Some(tx) = tx {
                    let _ = tx.send(());
                }
            }
            7 => {
                // fires the armed timers and tells the live session (if any) to close
                context.lock().unwrap().force_down(CloseReason::Silent, false);
                if let Some(lv) = live.take() {
                    lv.finished().await;
                }
                if let Some(sb) = sibling.take() {
                    sb.finished().await;
                }
            }
            9 => {
                // the neighbour opens a second connection while its first one exists: it is accepted into the
                // other slot of the ConnArbiter (the role of an outgoing connection of ours) and stays in OpenSent
                if sibling.is_none() {
                    // the slot the session does not use (a second connection that became the session keeps its slot)
                    let sib_role = other_role(live.as_ref().map_or(prim_role, |lv| lv.role));
                    let (client, started) = start_session(
                        &global,
                        &tables,
                        addr,
                        cur_local_cap.clone(),
                        sib_role,
                        &active_tx,
                    )
                    .await;
                    match started {
                        None => drop(client),
                        Some((counter, handle)) => {
                            let base = counter.total.load(Ordering::Relaxed);
                            sibling = Some(Live {
                                client,
                                rxbuf: bytes::BytesMut::new(),
                                peer_codec: bgp::PeerCodec::new(),
                                fams: cur_fams.clone(),
                                counter,
                                base,
                                sent: 0,
                                handle,
                                generation: 0,
                                neg: Val::L(vec![]),
                                role: sib_role,
                            });
                        }
                    }
                }
            }
            10 => {
                // [10, stage]: the second connection goes away before Established: in OpenSent (stage 0), or after
                // the neighbour's OPEN (stage 1: OpenConfirm -- or, while the first session is Established, the
                // collision it loses)
                if let Some(mut sb) = sibling.take() {
                    if e.len() > 1 && e[1].int() == 1 {
                        sb.base = sb.counter.total.load(Ordering::Relaxed);
                        let remote_cap = caps_of(&cur_fams, PEER_ASN, &Val::L(vec![]), &Val::L(vec![]));
                        let open = bgp::Message::Open(bgp::Open {
                            as_number: PEER_ASN,
                            router_id: u32::from(std::net::Ipv4Addr::new(192, 0, 2, 1)),
                            holdtime: HoldTime::new(90).expect("hold time"),
                            capability: remote_cap,
                        });
                        sb.send(&[open]).await;
                        // until the OPEN has been taken off the wire (the counter of received messages is per peer)
                        let mut spins = 0u32;
                        while sb.counter.total.load(Ordering::Relaxed) < sb.base + sb.sent
                            && !sb.handle.is_finished()
                        {
                            tokio::time::sleep(Duration::from_millis(1)).await;
                            spins += 1;
                            assert!(spins < 5000, "verif: the second connection did not read the OPEN");
                        }
                        settle().await;
                        if let Some(lv) = live.as_mut() {
                            lv.base += sb.sent;
                        }
                    }
                    sb.finished_after_close().await;
                }
            }
            11 => {
                // [11, remote_gr, remote_llgr, hold]: the neighbour sends its OPEN on the second connection.
                // While the first session is Established this is a collision the second connection loses
                // (Cease / Connection Collision Resolution); otherwise it becomes the session.
                if let Some(mut sb) = sibling.take() {
                    let remote_cap = caps_of(&cur_fams, PEER_ASN, &e[1], &e[2]);
                    if live.is_some() {
                        let their_open = loop {
                            match sb.recv().await {
                                Some(bgp::Message::Open(o)) => break o,
                                Some(_) => {}
                                None => panic!("verif: the second connection closed before its OPEN"),
                            }
                        };
                        let _ = their_open;
                        let open = bgp::Message::Open(bgp::Open {
                            as_number: PEER_ASN,
                            router_id: u32::from(std::net::Ipv4Addr::new(192, 0, 2, 1)),
                            holdtime: HoldTime::new(90).unwrap(),
                            capability: remote_cap,
                        });
                        sb.send(&[open]).await;
                        let sent = sb.sent;
                        sb.finished().await;
                        if let Some(lv) = live.as_mut() {
                            // the counter of received messages is per peer
                            lv.base += sent;
                        }
                    } else {
                        generation += 1;
                        sb.generation = generation;
                        sb.neg = negotiation_probe(addr, &cur_local_cap, &remote_cap).await;
                        // the counter of received messages is per peer: start counting from here
                        sb.base = sb.counter.total.load(Ordering::Relaxed);
                        sb.sent = 0;
                        open_exchange(&mut sb, &remote_cap, e[3].u16()).await;
                        sb.sync().await;
                        live = Some(sb);
                    }
                }
            }
            8 => {
                // disable_peer / enable_peer set this field of the Peer record
                global.write().await.peers.get_mut(&addr).unwrap().admin_down = e[1].bool();
            }
            t => panic!("verif: bad helper event {}", t),
        }
        settle().await;
        let neg = match live.as_ref() {
            None => Val::L(vec![]),
            Some(lv) => lv.neg.clone(),
        };
        obs.push(observe(&context, &tables, addr, &neg));
    }
    // leave no session task behind
    if let Some(sb) = sibling.take() {
        let Live { client, handle, .. } = sb;
        drop(client);
        let _ = tokio::time::timeout(Duration::from_secs(END_WAIT), handle).await;
    }
    if let Some(lv) = live.take() {
        let Live { client, handle, .. } = lv;
        drop(client);
        let _ = tokio::time::timeout(Duration::from_secs(END_WAIT), handle).await;
    }
    Val::L(obs)
}

fn run_case(case: &Val) -> Val {
    let l = case.list();
    let rt = tokio::runtime::Builder::new_current_thread().enable_all().build().unwrap();
    match l[0].int() {
        0 => rt.block_on(run_rs_case(l)),
        1 => rt.block_on(run_helper_case(l)),
        2 => run_gr_on_disconnect_case(l),
        t => panic!("verif: bad glue case kind {}", t),
    }
}

#[test]
fn verif_event_gr_cases() {
    val::run_cases(run_case);
}
