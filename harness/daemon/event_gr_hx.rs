// Graceful-restart glue of daemon/src/event/mod.rs driven on real Global /
// TableManager / PeerContext / PeerSession values (properties C10, C11).
// Body of `event::verif_hx::gr_glue`.
//
// case = [0, gr_peers, duration, probe_fams, events]      restarting-speaker glue (C11)
//   events: [0, rdinput] | [1, f, net, peer, pid, 0]
use super::super::*;

#[allow(dead_code)]
mod val {
    include!(concat!(env!("VERIF_HX_DIR"), "/common/val.rs"));
}
use val::Val;

fn fam_of(v: &Val) -> Family {
    let x = v.u32();
    Family::new((x >> 16) as u16, (x & 0xff) as u8)
}
fn fam_code(f: &Family) -> i128 {
    (((f.afi() as u32) << 16) | f.safi() as u32) as i128
}
fn peer_addr(p: u8) -> IpAddr {
    IpAddr::V4(std::net::Ipv4Addr::new(192, 0, 2, p))
}
fn net_of(n: u32) -> packet::Nlri {
    packet::Nlri::V4(packet::bgp::Ipv4Net {
        addr: std::net::Ipv4Addr::new(10, 1, n as u8, 0),
        mask: 24,
    })
}
fn net_code(n: &packet::Nlri) -> i128 {
    match n {
        packet::Nlri::V4(p) => p.addr.octets()[2] as i128,
        _ => -3,
    }
}

fn mk_global() -> GlobalHandle {
    let (tx, _rx) = mpsc::unbounded_channel();
    let (bfd_tx, _bfd_rx) = mpsc::unbounded_channel();
    let mut g = Global::new(tx, bfd_tx);
    g.asn = 65001;
    g.router_id = std::net::Ipv4Addr::new(1, 0, 0, 1);
    Arc::new(tokio::sync::RwLock::new(g))
}

fn mk_context() -> Arc<std::sync::Mutex<PeerContext>> {
    let fsm = crate::fsm::PeerFsm::new(
        u32::from(std::net::Ipv4Addr::new(1, 0, 0, 1)),
        65001,
        vec![],
        90,
        0,
        FnvHashMap::default(),
    );
    let conn_arbiter = Arc::new(std::sync::Mutex::new(ConnArbiter::new(fsm)));
    Arc::new(std::sync::Mutex::new(PeerContext {
        conn_arbiter,
        active_connect_cancel_tx: None,
        active_connect_join_handle: None,
        gr_state: crate::gr::GrState::new(),
        gr_restart_timer: None,
        llgr_family_timers: FnvHashMap::default(),
        rtc_state: crate::rtc::RtcState::new(),
        rtc_eor_timer: None,
    }))
}

fn mk_source(addr: IpAddr, id: u8) -> Arc<table::Source> {
    Arc::new(table::Source::new(
        addr,
        IpAddr::V4(std::net::Ipv4Addr::new(192, 0, 2, 254)),
        65100 + id as u32,
        65001,
        std::net::Ipv4Addr::new(0, 0, 0, id),
        PeerRole::Ebgp,
    ))
}

/// everything distributed to the observer peer since the last call
fn drain(rx: &mut mpsc::UnboundedReceiver<ToPeerEvent>) -> Vec<(i128, i128, i128)> {
    let mut v = Vec::new();
    while let Ok(ev) = rx.try_recv() {
        if let ToPeerEvent::NlriChange(c) = ev {
            v.push((fam_code(&c.family), net_code(&c.net), c.current_paths.len() as i128));
        }
    }
    v.sort();
    v
}

/// The deferring flag of a family is not readable from outside the table crate:
/// insert a scratch prefix through the public path; it is distributed iff the
/// family is not deferring.  The scratch route is withdrawn again.
fn probe_deferring(
    tables: &TableHandle,
    rx: &mut mpsc::UnboundedReceiver<ToPeerEvent>,
    f: Family,
) -> bool {
    let src = mk_source(IpAddr::V4(std::net::Ipv4Addr::new(198, 51, 100, 1)), 250);
    tables.insert_route(
        src.clone(),
        f,
        packet::PathNlri { path_id: 0, nlri: net_of(255) },
        None,
        Arc::new(Vec::new()),
        None,
        0,
    );
    let seen = drain(rx).iter().any(|(_, n, k)| *n == 255 && *k > 0);
    tables.remove_route(src, f, packet::PathNlri { path_id: 0, nlri: net_of(255) }, None, 0);
    let _ = drain(rx);
    !seen
}

async fn run_rs_case(l: &[Val]) -> Val {
    let global = mk_global();
    let tables: TableHandle = Arc::new(TableManager::new(1));
    let mut rx = tables.register_peer(
        IpAddr::V4(std::net::Ipv4Addr::new(203, 0, 113, 1)),
        FnvHashSet::default(),
        |_| {},
    );
    let probe_fams: Vec<Family> = l[3].list().iter().map(fam_of).collect();

    // start-up block of serve(): new(), start_deferral_families, selection_deferral = Some
    let mut gr_peers: fnv::FnvHashMap<IpAddr, Vec<Family>> = fnv::FnvHashMap::default();
    for e in l[1].list() {
        gr_peers.insert(peer_addr(e.at(0).u8()), e.at(1).list().iter().map(fam_of).collect());
    }
    let dur = l[2].list().first().map(|d| Duration::from_secs(d.u64()));
    let (deferral, init_outputs) = crate::gr::RestartingDeferral::new(gr_peers, dur);
    if !deferral.is_completed() {
        for output in &init_outputs {
            if let crate::gr::RestartingOutput::DeferFamilies(families) = output {
                tables.start_deferral_families(families);
            }
        }
        global.write().await.selection_deferral = Some(deferral);
    }

    let mut sessions: FnvHashMap<u8, PeerSession> = FnvHashMap::default();
    let mut sources: FnvHashMap<u8, Arc<table::Source>> = FnvHashMap::default();

    let flags = |tables: &TableHandle, rx: &mut mpsc::UnboundedReceiver<ToPeerEvent>| -> Val {
        Val::L(probe_fams.iter().map(|f| Val::b(probe_deferring(tables, rx, *f))).collect())
    };

    let started = global.read().await.selection_deferral.is_some();
    let flags0 = flags(&tables, &mut rx);
    let mut obs = Vec::new();
    for ev in l[4].list() {
        let e = ev.list();
        match e[0].int() {
            0 => {
                let i = e[1].list();
                match i[0].int() {
                    0 => {
                        let p = i[1].u8();
                        let fams: Vec<Family> = i[2].list().iter().map(fam_of).collect();
                        let negotiated_gr = if fams.is_empty() {
                            None
                        } else {
                            Some(NegotiatedGr {
                                families: fams,
                                restart_time: Duration::from_secs(90),
                                notification_enabled: false,
                            })
                        };
                        let tables_c = tables.clone();
                        let session = sessions.entry(p).or_insert_with(|| {
                            PeerSession::new_for_test(peer_addr(p), mk_context(), tables_c)
                        });
                        session
                            .process_effects(
                                vec![GlobalEffect::GrSessionEstablished { negotiated_gr }],
                                &global,
                            )
                            .await;
                    }
                    1 => {
                        let p = i[1].u8();
                        let tables_c = tables.clone();
                        let session = sessions.entry(p).or_insert_with(|| {
                            PeerSession::new_for_test(peer_addr(p), mk_context(), tables_c)
                        });
                        session
                            .process_effects(
                                vec![GlobalEffect::GrEorReceived { family: fam_of(&i[2]) }],
                                &global,
                            )
                            .await;
                    }
                    2 => {
                        // call site in PeerSession::run(), after apply_disconnect
                        let remote_addr = peer_addr(i[1].u8());
                        let rd_outputs = {
                            let mut server = global.write().await;
                            if let Some(rd) = &mut server.selection_deferral {
                                rd.process(crate::gr::RestartingInput::PeerWithdrawn(remote_addr))
                            } else {
                                vec![]
                            }
                        };
                        let _ = process_restarting_outputs(rd_outputs, &global, &tables).await;
                    }
                    3 => {
                        gr_selection_deferral_timer_expired(global.clone(), tables.clone()).await;
                    }
                    t => panic!("verif: bad rd input {}", t),
                }
            }
            1 => {
                assert!(!e[5].bool(), "filtered inserts are driven through the table harness");
                let p = e[3].u8();
                let src = sources.entry(p).or_insert_with(|| mk_source(peer_addr(p), p)).clone();
                tables.insert_route(
                    src,
                    fam_of(&e[1]),
                    packet::PathNlri { path_id: e[4].u32(), nlri: net_of(e[2].u32()) },
                    None,
                    Arc::new(Vec::new()),
                    None,
                    0,
                );
            }
            t => panic!("verif: bad event {}", t),
        }
        let ann = drain(&mut rx);
        let (rd_some, timer_some) = {
            let g = global.read().await;
            (g.selection_deferral.is_some(), g.selection_deferral_timer.is_some())
        };
        obs.push(Val::L(vec![
            Val::b(rd_some),
            Val::b(timer_some),
            flags(&tables, &mut rx),
            Val::L(ann
                .into_iter()
                .map(|(f, n, k)| Val::L(vec![Val::I(f), Val::I(n), Val::I(k)]))
                .collect()),
        ]));
    }
    Val::L(vec![Val::b(started), flags0, Val::L(obs)])
}

fn run_case(case: &Val) -> Val {
    let l = case.list();
    let rt = tokio::runtime::Builder::new_current_thread().enable_all().build().unwrap();
    match l[0].int() {
        0 => rt.block_on(run_rs_case(l)),
        t => panic!("verif: bad glue case kind {}", t),
    }
}

#[test]
fn verif_event_gr_cases() {
    val::run_cases(run_case);
}
