// Correspondence harness for daemon/src/rpki.rs (property C13).
// Included as the body of `rpki::verif_hx` under cfg(all(test, osrg_rustybgp_verif)).
//
// Drives the real RpkiClient::serve_inner (one future per cache, polled by hand, so
// "the client has consumed everything it can" is simply Poll::Pending) over
// tokio::io::duplex with the generated TCP fragmentation and reads
// TableManager::collect_roa after every event.
//
//   case  = [nclients, pre, events]
//   pre   = [[net, maxlen, asn], ...]      VRPs of a foreign cache (identity 9) installed beforehand
//   net   = [4|6, [octets], mask]
//   event = [c, 0, [bytes]]   the cache of client c sends these bytes (one TCP segment)
//         | [c, 1]            soft reset (Notify::notify_one)
//         | [c, 2]            the cache closes the connection
//         | [c, 3]            the client is cancelled (CancellationToken)
//   observation per event =
//     [[done_0, ..], [[bytes client i wrote since the last observation], ..], table, [session_id, serial, end_of_data_count, up] of client c]
//   table = [[4|6, [octets], mask, maxlen, asn, cache], ...]  (collect_roa IPv4 then IPv6)
use super::*;
use std::future::Future;
use std::net::{Ipv4Addr, Ipv6Addr};
use std::pin::Pin;
use tokio::io::AsyncReadExt;
use tokio::io::AsyncWriteExt;

#[allow(dead_code)]
mod val {
    include!(concat!(env!("VERIF_HX_DIR"), "/common/val.rs"));
}
use val::Val;

fn hx_addr(fam: i128, bytes: &[u8]) -> IpAddr {
    if fam == 4 {
        let mut o = [0u8; 4];
        o.copy_from_slice(bytes);
        IpAddr::V4(Ipv4Addr::from(o))
    } else {
        let mut o = [0u8; 16];
        o.copy_from_slice(bytes);
        IpAddr::V6(Ipv6Addr::from(o))
    }
}

struct Client {
    fut: Option<Pin<Box<dyn Future<Output = Result<(), Error>>>>>,
    server: Option<tokio::io::DuplexStream>,
    addr: Arc<IpAddr>,
    cancel: CancellationToken,
    soft_reset: Arc<Notify>,
    state: Arc<RpkiState>,
}

fn dump(tables: &TableHandle, clients: &[Client], foreign: &Arc<IpAddr>) -> Val {
    let mut out = Vec::new();
    for fam in [packet::Family::IPV4, packet::Family::IPV6] {
        for (net, roa) in tables.collect_roa(fam) {
            let (f, bytes, mask) = match &net {
                packet::IpNet::V4(n) => (4u8, n.addr.octets().to_vec(), n.mask),
                packet::IpNet::V6(n) => (6u8, n.addr.octets().to_vec(), n.mask),
            };
            let mut src = Val::I(-2);
            if Arc::ptr_eq(&roa.source, foreign) {
                src = Val::n(9u8);
            }
            for (i, c) in clients.iter().enumerate() {
                if Arc::ptr_eq(&roa.source, &c.addr) {
                    src = Val::us(i);
                }
            }
            out.push(Val::L(vec![
                Val::n(f),
                Val::from_bytes(&bytes),
                Val::n(mask),
                Val::n(roa.max_length),
                Val::n(roa.as_number),
                src,
            ]));
        }
    }
    Val::L(out)
}

async fn run_async(case: &Val) -> Val {
    let nclients = case.at(0).usize();
    let tables: TableHandle = Arc::new(crate::table_manager::TableManager::new(1));
    let foreign = Arc::new(IpAddr::V4(Ipv4Addr::new(192, 0, 2, 99)));
    let mut pre = Vec::new();
    for r in case.at(1).list() {
        let n = r.at(0);
        pre.push((
            packet::IpNet::new(hx_addr(n.at(0).int(), &n.at(1).bytes()), n.at(2).u8()),
            Arc::new(table::Roa::new(r.at(1).u8(), r.at(2).u32(), foreign.clone())),
        ));
    }
    tables.rpki_insert(pre);

    let mut clients: Vec<Client> = Vec::new();
    for i in 0..nclients {
        let (client_io, server_io) = tokio::io::duplex(1 << 22);
        let addr = Arc::new(IpAddr::V4(Ipv4Addr::new(192, 0, 2, 1))); // same address value, distinct Arc
        let cancel = CancellationToken::new();
        let soft_reset = Arc::new(Notify::new());
        let state = Arc::new(RpkiState::default());
        let framed = Framed::new(client_io, rpki::RtrCodec::new());
        let fut = RpkiClient::serve_inner(
            framed,
            addr.clone(),
            cancel.clone(),
            soft_reset.clone(),
            state.clone(),
            tables.clone(),
        );
        let _ = i;
        clients.push(Client {
            // unconstrained: the futures are polled by hand inside one block_on poll, so tokio's
            // cooperative budget (128 operations per task poll) must not make the stream look Pending
            fut: Some(Box::pin(tokio::task::unconstrained(fut))),
            server: Some(server_io),
            addr,
            cancel,
            soft_reset,
            state,
        });
    }

    let mut obs = Vec::new();
    // the events are preceded by an implicit "start": every client runs until it blocks
    let mut events: Vec<Val> = vec![Val::L(vec![Val::I(0), Val::I(-1)])];
    events.extend(case.at(2).list().iter().cloned());
    for ev in &events {
        tokio::task::yield_now().await; // fresh cooperative budget for this event
        let c = ev.at(0).usize();
        match ev.at(1).int() {
            -1 => {}
            0 => {
                if let Some(s) = clients[c].server.as_mut() {
                    let _ = s.write_all(&ev.at(2).bytes()).await;
                }
            }
            1 => clients[c].soft_reset.notify_one(),
            2 => {
                clients[c].server = None;
            }
            3 => clients[c].cancel.cancel(),
            k => panic!("verif: bad event {}", k),
        }
        // run every client until it can make no more progress
        for _ in 0..3 {
            for cl in clients.iter_mut() {
                if let Some(f) = cl.fut.as_mut() {
                    if let std::task::Poll::Ready(_) = futures::poll!(f.as_mut()) {
                        cl.fut = None;
                    }
                }
            }
        }
        // what every client wrote to its cache since the last observation
        let mut sent_all = Vec::new();
        for cl in clients.iter_mut() {
            let mut sent = Vec::new();
            if let Some(s) = cl.server.as_mut() {
                let mut buf = [0u8; 4096];
                loop {
                    match futures::poll!(Box::pin(s.read(&mut buf))) {
                        std::task::Poll::Ready(Ok(n)) if n > 0 => sent.extend_from_slice(&buf[..n]),
                        _ => break,
                    }
                }
            }
            sent_all.push(Val::from_bytes(&sent));
        }
        let st = &clients[c].state;
        obs.push(Val::L(vec![
            Val::L(clients.iter().map(|x| Val::b(x.fut.is_none())).collect()),
            Val::L(sent_all),
            dump(&tables, &clients, &foreign),
            Val::L(vec![
                Val::n(st.session_id.load(Ordering::Relaxed)),
                Val::n(st.serial.load(Ordering::Relaxed)),
                Val::I(st.end_of_data.load(Ordering::Relaxed) as i128),
                Val::b(st.up.load(Ordering::Relaxed)),
            ]),
        ]));
    }
    Val::L(obs)
}

fn run_case(case: &Val) -> Val {
    let rt = tokio::runtime::Builder::new_current_thread()
        .enable_all()
        .build()
        .expect("runtime");
    rt.block_on(run_async(case))
}

#[test]
fn verif_rpki_cases() {
    val::run_cases(run_case);
}

// ---------------------------------------------------------------------------
// Property C12, "the validation state ... shown by the API": TableManager::collect_paths
// annotates every path with RpkiTable::validate.  case = [vrps, routes]
//   vrps   = [[net, maxlen, asn], ...]      installed with rpki_insert (one cache)
//   routes = [[net, local_asn, [[code, [bytes]], ...], peer, path_id], ...]
//            one PATH each, inserted in this order with insert_route; several paths may share a
//            prefix.  peer 0..249 = a session 10.0.0.<peer+1> whose local AS is local_asn (the
//            generator keeps it constant per peer); peer 255 = the local source (Source::local(),
//            local AS 0).  The last two fields may be absent: peer = position, path_id = 0.
// observation = one entry per route, in route order: [global, adj_in]
//   global = [] when TableQuery::Global lists no such path, else [v]
//   adj_in = the same through TableQuery::AdjIn(peer address) ([] for the local source)
//   v = [] (no annotation) | [[state, reason, n_matched, n_unmatched_asn, n_unmatched_length]]
fn api_annotation(p: &table::PathEntry) -> Val {
    Val::opt(p.validation.as_ref().map(|r| {
        let st = match r.state {
            table::RpkiValidationState::NotFound => 0u8,
            table::RpkiValidationState::Valid => 1,
            table::RpkiValidationState::Invalid => 2,
        };
        let rs = match r.reason {
            table::RpkiValidationReason::None => 0u8,
            table::RpkiValidationReason::Asn => 1,
            table::RpkiValidationReason::Length => 2,
        };
        Val::L(vec![
            Val::n(st),
            Val::n(rs),
            Val::us(r.matched.len()),
            Val::us(r.unmatched_asn.len()),
            Val::us(r.unmatched_length.len()),
        ])
    }))
}

fn run_api_case(case: &Val) -> Val {
    let tables: TableHandle = Arc::new(crate::table_manager::TableManager::new(2));
    let cache = Arc::new(IpAddr::V4(Ipv4Addr::new(192, 0, 2, 1)));
    let mut v = Vec::new();
    for r in case.at(0).list() {
        let n = r.at(0);
        v.push((
            packet::IpNet::new(hx_addr(n.at(0).int(), &n.at(1).bytes()), n.at(2).u8()),
            Arc::new(table::Roa::new(r.at(1).u8(), r.at(2).u32(), cache.clone())),
        ));
    }
    // The VRP set of the case is installed through one of several histories of the daemon's own
    // calls (rpki_insert / rpki_withdraw / rpki_reset / rpki_drop_all) that all END in exactly that
    // set for this cache: whatever an earlier step leaves behind by mistake is a "junk" VRP that covers
    // every route of its family with an AS no route uses, so it turns NotFound / Valid into Invalid
    // and the per-path oracle sees it.  The history is picked by the size of the case.
    {
        let junk = |c: &Arc<IpAddr>| -> Vec<(packet::IpNet, Arc<table::Roa>)> {
            vec![
                (packet::IpNet::new(IpAddr::V4(Ipv4Addr::new(0, 0, 0, 0)), 0), Arc::new(table::Roa::new(32, 64999, c.clone()))),
                (
                    packet::IpNet::new(IpAddr::V6(std::net::Ipv6Addr::UNSPECIFIED), 0),
                    Arc::new(table::Roa::new(128, 64999, c.clone())),
                ),
            ]
        };
        let other = Arc::new(IpAddr::V4(Ipv4Addr::new(192, 0, 2, 2)));
        match (case.at(0).list().len() + case.at(1).list().len()) % 5 {
            1 => {
                tables.rpki_reset(cache.clone(), junk(&cache));
                tables.rpki_reset(cache.clone(), v);
            }
            2 => {
                let mut all = junk(&cache);
                all.extend(v);
                tables.rpki_reset(cache.clone(), all);
                tables.rpki_withdraw(junk(&cache));
            }
            3 => {
                tables.rpki_reset(cache.clone(), junk(&cache));
                tables.rpki_reset(cache.clone(), Vec::new());
                tables.rpki_insert(v);
            }
            4 => {
                tables.rpki_insert(junk(&other));
                tables.rpki_insert(v);
                tables.rpki_drop_all(other.clone());
            }
            _ => tables.rpki_insert(v),
        }
    }
    let mut sources: std::collections::HashMap<usize, Arc<table::Source>> = std::collections::HashMap::new();
    let mut paths: Vec<(packet::Family, packet::Nlri, Arc<table::Source>, u32, bool)> = Vec::new();
    for (i, r) in case.at(1).list().iter().enumerate() {
        let n = r.at(0);
        let (family, nlri, nh) = match hx_addr(n.at(0).int(), &n.at(1).bytes()) {
            IpAddr::V4(addr) => (
                packet::Family::IPV4,
                packet::Nlri::V4(packet::bgp::Ipv4Net { addr, mask: n.at(2).u8() }),
                packet::bgp::Nexthop::V4(Ipv4Addr::new(10, 9, 9, 9)),
            ),
            IpAddr::V6(addr) => (
                packet::Family::IPV6,
                packet::Nlri::V6(packet::bgp::Ipv6Net { addr, mask: n.at(2).u8() }),
                packet::bgp::Nexthop::V6(Ipv6Addr::new(0x2001, 0xdb8, 0, 0, 0, 0, 0, 9)),
            ),
        };
        let peer = if r.list().len() > 3 { r.at(3).usize() } else { i % 250 };
        let path_id = if r.list().len() > 4 { r.at(4).u32() } else { 0 };
        let is_local = peer == 255;
        let local_asn = r.at(1).u32();
        let source = if is_local {
            table::Source::local()
        } else {
            sources
                .entry(peer)
                .or_insert_with(|| {
                    Arc::new(table::Source::new(
                        IpAddr::V4(Ipv4Addr::new(10, 0, 0, peer as u8 + 1)),
                        IpAddr::V4(Ipv4Addr::new(10, 0, 255, 254)),
                        64000 + peer as u32,
                        local_asn,
                        Ipv4Addr::new(1, 1, 1, peer as u8 + 1),
                        table::PeerRole::Ebgp,
                    ))
                })
                .clone()
        };
        let mut attrs = Vec::new();
        for a in r.at(2).list() {
            let code = a.at(0).u8();
            if code == packet::Attribute::AS_PATH {
                attrs.push(packet::Attribute::new_with_bin(code, a.at(1).bytes()).expect("as_path"));
            } else {
                attrs.push(packet::Attribute::new_with_value(code, 0).expect("value attribute"));
            }
        }
        tables.insert_route(
            source.clone(),
            family,
            packet::PathNlri { nlri: nlri.clone(), path_id },
            Some(nh),
            Arc::new(attrs),
            None,
            0,
        );
        paths.push((family, nlri, source, path_id, is_local));
    }
    let find = |all: &Vec<table::DestinationEntry>, nlri: &packet::Nlri, src: &Arc<table::Source>, pid: u32| -> Val {
        match all
            .iter()
            .find(|d| &d.net == nlri)
            .and_then(|d| d.paths.iter().find(|p| p.source.remote_addr == src.remote_addr && Arc::ptr_eq(&p.source, src) && p.remote_path_id == pid))
        {
            None => Val::L(vec![]),
            Some(p) => Val::L(vec![api_annotation(p)]),
        }
    };
    let mut global = Vec::new();
    for fam in [packet::Family::IPV4, packet::Family::IPV6] {
        global.extend(tables.collect_paths(table::TableQuery::Global, fam, Vec::new(), false));
    }
    let mut obs = Vec::new();
    for (family, nlri, src, pid, is_local) in &paths {
        let g = find(&global, nlri, src, *pid);
        let a = if *is_local {
            Val::L(vec![])
        } else {
            let adj = tables.collect_paths(table::TableQuery::AdjIn(src.remote_addr), *family, Vec::new(), false);
            find(&adj, nlri, src, *pid)
        };
        obs.push(Val::L(vec![g, a]));
    }
    Val::L(obs)
}

#[test]
fn verif_rpki_api_cases() {
    val::run_cases(run_api_case);
}
