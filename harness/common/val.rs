// Nested integer arrays: the only data format exchanged between the case
// generators, the Rust harnesses and the Coq models.
//   val ::= integer | '[' val (',' val)* ']' | '[' ']'
// Shared by every harness: `#[allow(dead_code)] mod val { include!(concat!(env!("VERIF_HX_DIR"), "/common/val.rs")); }`

#[derive(Clone, Debug, PartialEq, Eq)]
pub(crate) enum Val {
    I(i128),
    L(Vec<Val>),
}

impl Val {
    pub(crate) fn parse(s: &str) -> Result<Val, String> {
        let b = s.as_bytes();
        let mut pos = 0usize;
        let v = Self::parse_at(b, &mut pos)?;
        while pos < b.len() && (b[pos] as char).is_whitespace() {
            pos += 1;
        }
        if pos != b.len() {
            return Err(format!("trailing input at {}", pos));
        }
        Ok(v)
    }

    fn skip_ws(b: &[u8], pos: &mut usize) {
        while *pos < b.len() && (b[*pos] as char).is_whitespace() {
            *pos += 1;
        }
    }

    fn parse_at(b: &[u8], pos: &mut usize) -> Result<Val, String> {
        Self::skip_ws(b, pos);
        if *pos >= b.len() {
            return Err("unexpected end".into());
        }
        if b[*pos] == b'[' {
            *pos += 1;
            let mut items = Vec::new();
            loop {
                Self::skip_ws(b, pos);
                if *pos >= b.len() {
                    return Err("unterminated list".into());
                }
                if b[*pos] == b']' {
                    *pos += 1;
                    return Ok(Val::L(items));
                }
                if b[*pos] == b',' {
                    *pos += 1;
                    continue;
                }
                items.push(Self::parse_at(b, pos)?);
            }
        }
        let start = *pos;
        if b[*pos] == b'-' {
            *pos += 1;
        }
        while *pos < b.len() && b[*pos].is_ascii_digit() {
            *pos += 1;
        }
        std::str::from_utf8(&b[start..*pos])
            .unwrap()
            .parse::<i128>()
            .map(Val::I)
            .map_err(|e| format!("bad integer at {}: {}", start, e))
    }

    pub(crate) fn int(&self) -> i128 {
        match self {
            Val::I(i) => *i,
            Val::L(_) => panic!("verif: expected integer, got list"),
        }
    }
    pub(crate) fn u8(&self) -> u8 {
        self.int() as u8
    }
    pub(crate) fn u16(&self) -> u16 {
        self.int() as u16
    }
    pub(crate) fn u32(&self) -> u32 {
        self.int() as u32
    }
    pub(crate) fn u64(&self) -> u64 {
        self.int() as u64
    }
    pub(crate) fn usize(&self) -> usize {
        self.int() as usize
    }
    pub(crate) fn bool(&self) -> bool {
        self.int() != 0
    }
    pub(crate) fn list(&self) -> &[Val] {
        match self {
            Val::L(l) => l,
            Val::I(_) => panic!("verif: expected list, got integer"),
        }
    }
    pub(crate) fn at(&self, i: usize) -> &Val {
        &self.list()[i]
    }
    pub(crate) fn bytes(&self) -> Vec<u8> {
        self.list().iter().map(|v| v.u8()).collect()
    }

    pub(crate) fn n<T: Into<i128>>(x: T) -> Val {
        Val::I(x.into())
    }
    pub(crate) fn b(x: bool) -> Val {
        Val::I(if x { 1 } else { 0 })
    }
    pub(crate) fn us(x: usize) -> Val {
        Val::I(x as i128)
    }
    pub(crate) fn opt(o: Option<Val>) -> Val {
        match o {
            None => Val::L(vec![]),
            Some(v) => Val::L(vec![v]),
        }
    }
    pub(crate) fn from_bytes(b: &[u8]) -> Val {
        Val::L(b.iter().map(|x| Val::I(*x as i128)).collect())
    }
}

impl std::fmt::Display for Val {
    fn fmt(&self, f: &mut std::fmt::Formatter<'_>) -> std::fmt::Result {
        match self {
            Val::I(i) => write!(f, "{}", i),
            Val::L(l) => {
                write!(f, "[")?;
                for (k, v) in l.iter().enumerate() {
                    if k > 0 {
                        write!(f, ",")?;
                    }
                    write!(f, "{}", v)?;
                }
                write!(f, "]")
            }
        }
    }
}

/// Reads the cases file named by VERIF_CASES (one val per line), applies `f`
/// to each under catch_unwind, and writes one line per case to VERIF_OUT.
/// A panic inside `f` is reported as the single token `[-1]`.
pub(crate) fn run_cases<F>(f: F)
where
    F: Fn(&Val) -> Val + std::panic::RefUnwindSafe,
{
    use std::io::{BufRead, Write};
    let cases = std::env::var("VERIF_CASES").expect("VERIF_CASES not set");
    let out = std::env::var("VERIF_OUT").expect("VERIF_OUT not set");
    let rd = std::io::BufReader::new(std::fs::File::open(&cases).expect("open cases"));
    let mut wr = std::io::BufWriter::new(std::fs::File::create(&out).expect("create out"));
    let prev = std::panic::take_hook();
    std::panic::set_hook(Box::new(|_| {}));
    // Watchdog: a case that does not return within the deadline (a wedged decoder, a
    // loop that consumes nothing) cannot be interrupted from inside; the watchdog records
    // its index in <VERIF_OUT>.hang and ends the process with status 97.  The driver
    // reports that case as wedged and runs the remaining cases in a new process.
    static CUR: std::sync::atomic::AtomicU64 = std::sync::atomic::AtomicU64::new(u64::MAX);
    static SINCE_MS: std::sync::atomic::AtomicU64 = std::sync::atomic::AtomicU64::new(0);
    let t0 = std::time::Instant::now();
    let deadline_ms: u64 = std::env::var("VERIF_CASE_DEADLINE_MS")
        .ok()
        .and_then(|s| s.parse().ok())
        .unwrap_or(60_000);
    {
        let hang = format!("{}.hang", out);
        let _ = std::fs::remove_file(&hang);
        std::thread::spawn(move || loop {
            std::thread::sleep(std::time::Duration::from_millis(250));
            let cur = CUR.load(std::sync::atomic::Ordering::SeqCst);
            if cur == u64::MAX {
                continue;
            }
            let since = SINCE_MS.load(std::sync::atomic::Ordering::SeqCst);
            let now = t0.elapsed().as_millis() as u64;
            if now.saturating_sub(since) > deadline_ms && CUR.load(std::sync::atomic::Ordering::SeqCst) == cur {
                let _ = std::fs::write(&hang, format!("{}\n", cur));
                std::process::exit(97);
            }
        });
    }
    let mut idx: u64 = 0;
    for line in rd.lines() {
        let line = line.expect("read line");
        if line.trim().is_empty() {
            continue;
        }
        let v = Val::parse(&line).expect("parse case");
        SINCE_MS.store(t0.elapsed().as_millis() as u64, std::sync::atomic::Ordering::SeqCst);
        CUR.store(idx, std::sync::atomic::Ordering::SeqCst);
        idx += 1;
        let r = std::panic::catch_unwind(|| f(&v));
        CUR.store(u64::MAX, std::sync::atomic::Ordering::SeqCst);
        match r {
            Ok(o) => writeln!(wr, "{}", o).unwrap(),
            Err(_) => writeln!(wr, "[-1]").unwrap(),
        }
        // every finished case is on disk before the next one starts (the watchdog may end
        // the process during the next one)
        wr.flush().unwrap();
    }
    wr.flush().unwrap();
    std::panic::set_hook(prev);
}
