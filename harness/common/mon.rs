// Builders shared by the C19 harnesses (harness/hx-mon and the daemon hooks
// bmp_hx.rs / mrt_hx.rs): case values -> rustybgp_packet values, the reference
// encoding of an embedded BGP message, and a printer for what the repository's
// own BGP parser reads back from an embedded PDU.
//
// Included as `mod mon { include!(concat!(env!("VERIF_HX_DIR"), "/common/mon.rs")); }`
// next to `mod val` and `mod caps`.
use super::caps;
use super::val::Val;
use rustybgp_packet::bgp::{self, Attribute, Family, Nexthop, Nlri, PathNlri};
use std::net::{IpAddr, Ipv4Addr, Ipv6Addr};
use std::sync::Arc;

/// A list value; the compact form `[-1, n, x]` stands for n copies of x.
pub(crate) fn items(v: &Val) -> Vec<Val> {
    let l = v.list();
    if l.len() == 3 {
        if let Val::I(-1) = l[0] {
            return std::iter::repeat(l[2].clone()).take(l[1].usize()).collect();
        }
    }
    l.to_vec()
}

pub(crate) fn bytes_of(v: &Val) -> Vec<u8> {
    items(v).iter().map(|x| x.u8()).collect()
}

pub(crate) fn fam_of(v: &Val) -> Family {
    let x = v.u32();
    Family::new((x >> 16) as u16, (x & 0xff) as u8)
}

pub(crate) fn fam_val(f: &Family) -> Val {
    Val::I((((f.afi() as u32) << 16) | f.safi() as u32) as i128)
}

pub(crate) fn v4_of(v: &Val) -> Ipv4Addr {
    let b = v.bytes();
    Ipv4Addr::new(b[0], b[1], b[2], b[3])
}

pub(crate) fn ip_of(v: &Val) -> IpAddr {
    let b = v.bytes();
    match b.len() {
        4 => IpAddr::V4(Ipv4Addr::new(b[0], b[1], b[2], b[3])),
        16 => {
            let a: [u8; 16] = b.as_slice().try_into().unwrap();
            IpAddr::V6(Ipv6Addr::from(a))
        }
        n => panic!("verif: bad address length {}", n),
    }
}

pub(crate) fn ip_val(a: &IpAddr) -> Val {
    match a {
        IpAddr::V4(a) => Val::from_bytes(&a.octets()),
        IpAddr::V6(a) => Val::from_bytes(&a.octets()),
    }
}

/// [0, mask, 4 bytes] | [1, mask, 16 bytes]
pub(crate) fn nlri_of(v: &Val) -> Nlri {
    let l = v.list();
    match l[0].int() {
        0 => Nlri::V4(bgp::Ipv4Net {
            addr: v4_of(&l[2]),
            mask: l[1].u8(),
        }),
        1 => {
            let a: [u8; 16] = l[2].bytes().as_slice().try_into().unwrap();
            Nlri::V6(bgp::Ipv6Net {
                addr: Ipv6Addr::from(a),
                mask: l[1].u8(),
            })
        }
        t => panic!("verif: bad nlri tag {}", t),
    }
}

pub(crate) fn nlri_val(n: &Nlri) -> Val {
    match n {
        Nlri::V4(n) => Val::L(vec![Val::n(0u8), Val::n(n.mask), Val::from_bytes(&n.addr.octets())]),
        Nlri::V6(n) => Val::L(vec![Val::n(1u8), Val::n(n.mask), Val::from_bytes(&n.addr.octets())]),
        other => Val::L(vec![Val::n(9u8), Val::from_bytes(&other.encode_to_bytes())]),
    }
}

pub(crate) fn entries_of(v: &Val) -> Vec<PathNlri> {
    items(v)
        .iter()
        .map(|e| PathNlri {
            path_id: e.at(0).u32(),
            nlri: nlri_of(e.at(1)),
        })
        .collect()
}

pub(crate) fn entries_val(e: &[PathNlri]) -> Val {
    Val::L(
        e.iter()
            .map(|p| Val::L(vec![Val::n(p.path_id), nlri_val(&p.nlri)]))
            .collect(),
    )
}

/// [] | [bytes] with 4, 16 or 32 bytes
pub(crate) fn nexthop_of(v: &Val) -> Option<Nexthop> {
    let l = v.list();
    if l.is_empty() {
        return None;
    }
    let b = l[0].bytes();
    match b.len() {
        4 => Some(Nexthop::V4(Ipv4Addr::new(b[0], b[1], b[2], b[3]))),
        16 => {
            let a: [u8; 16] = b.as_slice().try_into().unwrap();
            Some(Nexthop::V6(Ipv6Addr::from(a)))
        }
        32 => {
            let g: [u8; 16] = b[..16].try_into().unwrap();
            let l: [u8; 16] = b[16..].try_into().unwrap();
            Some(Nexthop::V6LinkLocal(Ipv6Addr::from(g), Ipv6Addr::from(l)))
        }
        n => panic!("verif: bad nexthop length {}", n),
    }
}

pub(crate) fn nexthop_val(n: &Option<Nexthop>) -> Val {
    match n {
        None => Val::L(vec![]),
        Some(n) => Val::L(vec![Val::from_bytes(&n.to_bytes())]),
    }
}

/// [0, code, u32] (value attribute) | [1, code, bytes] (binary, canonical flags)
/// | [2, code, flags, bytes] (opaque)
pub(crate) fn attr_of(v: &Val) -> Attribute {
    let l = v.list();
    match l[0].int() {
        0 => Attribute::new_with_value(l[1].u8(), l[2].u32()).expect("verif: value attr code"),
        1 => Attribute::new_with_bin(l[1].u8(), bytes_of(&l[2])).expect("verif: bin attr code"),
        2 => Attribute::new_opaque(l[1].u8(), l[2].u8(), bytes_of(&l[3])),
        t => panic!("verif: bad attr tag {}", t),
    }
}

pub(crate) fn attrs_of(v: &Val) -> Arc<Vec<Attribute>> {
    Arc::new(items(v).iter().map(attr_of).collect())
}

pub(crate) fn attrs_val(a: &[Attribute]) -> Val {
    Val::L(a.iter().map(|x| Val::from_bytes(&x.encode_to_bytes())).collect())
}

/// [1, asn, hold, router_id, caps] | [2, 0, fam, entries, nexthop, attrs] | [2, 1, fam, entries]
/// | [2, 2, fam] | [3, code, subcode, data] | [4] | [5, fam]
pub(crate) fn msg_of(v: &Val) -> bgp::Message {
    let l = v.list();
    match l[0].int() {
        1 => bgp::Message::Open(bgp::Open {
            as_number: l[1].u32(),
            holdtime: bgp::HoldTime::new(l[2].u16()).expect("verif: hold time"),
            router_id: l[3].u32(),
            capability: caps::caps_of(&l[4]),
        }),
        2 => match l[1].int() {
            0 => bgp::Message::Update(bgp::Update::Reach {
                family: fam_of(&l[2]),
                entries: entries_of(&l[3]),
                nexthop: nexthop_of(&l[4]),
                attr: attrs_of(&l[5]),
            }),
            1 => bgp::Message::Update(bgp::Update::Unreach {
                family: fam_of(&l[2]),
                entries: entries_of(&l[3]),
            }),
            2 => bgp::Message::Update(bgp::Update::EndOfRib(fam_of(&l[2]))),
            t => panic!("verif: bad update tag {}", t),
        },
        3 => bgp::Message::Notification(bgp::Notification::from_notification(
            l[1].u8(),
            l[2].u8(),
            bytes_of(&l[3]),
        )),
        4 => bgp::Message::Keepalive,
        5 => bgp::Message::RouteRefresh { family: fam_of(&l[1]) },
        t => panic!("verif: bad message tag {}", t),
    }
}

pub(crate) fn msg_family(m: &bgp::Message) -> Option<Family> {
    match m {
        bgp::Message::Update(bgp::Update::Reach { family, .. }) => Some(*family),
        bgp::Message::Update(bgp::Update::Unreach { family, .. }) => Some(*family),
        bgp::Message::Update(bgp::Update::EndOfRib(family)) => Some(*family),
        _ => None,
    }
}

/// Canonical description of a send-path message (what the converters built).
pub(crate) fn msg_val(m: &bgp::Message) -> Val {
    match m {
        bgp::Message::Open(o) => Val::L(vec![
            Val::n(1u8),
            Val::n(o.as_number),
            Val::n(o.holdtime.seconds()),
            Val::n(o.router_id),
            caps::caps_val(&o.capability),
        ]),
        bgp::Message::Update(bgp::Update::Reach {
            family,
            entries,
            nexthop,
            attr,
        }) => Val::L(vec![
            Val::n(2u8),
            Val::n(0u8),
            fam_val(family),
            entries_val(entries),
            nexthop_val(nexthop),
            attrs_val(attr),
        ]),
        bgp::Message::Update(bgp::Update::Unreach { family, entries }) => {
            Val::L(vec![Val::n(2u8), Val::n(1u8), fam_val(family), entries_val(entries)])
        }
        bgp::Message::Update(bgp::Update::EndOfRib(family)) => {
            Val::L(vec![Val::n(2u8), Val::n(2u8), fam_val(family)])
        }
        bgp::Message::Notification(n) => Val::L(vec![
            Val::n(3u8),
            Val::n(n.notification_code()),
            Val::n(n.notification_subcode()),
            Val::from_bytes(n.notification_data()),
        ]),
        bgp::Message::Keepalive => Val::L(vec![Val::n(4u8)]),
        bgp::Message::RouteRefresh { family } => Val::L(vec![Val::n(5u8), fam_val(family)]),
    }
}

/// The reference encoding of an embedded BGP message: `PeerCodec::encode_to`
/// on a fresh codec whose only negotiated features are ADD-PATH (tx) = `addpath`
/// for the family of the message and the RFC 8950 form for an IPv4 route with an IPv6 next hop.  This is the opaque byte-string parameter of
/// the Coq model (the BGP encoder itself is property C04).
pub(crate) fn ref_encode(m: &bgp::Message, addpath: bool) -> Vec<u8> {
    let mut codec = bgp::PeerCodec::new();
    // RFC 8950: an IPv4 unicast announcement with an IPv6 next hop can only be written
    // with its NLRI inside MP_REACH_NLRI; every other message keeps the classic form.
    codec.set_extended_nexthop(matches!(
        m,
        bgp::Message::Update(bgp::Update::Reach { family, nexthop: Some(nh), .. })
            if *family == Family::IPV4 && nh.addr().is_ipv6()
    ));
    if let Some(f) = msg_family(m) {
        codec.set_family(
            f,
            bgp::FamilyState {
                addpath_tx: addpath,
                ..Default::default()
            },
        );
    }
    let mut buf = bytes::BytesMut::new();
    if codec.encode_to(m, &mut buf).is_err() {
        // attributes that leave no room for an NLRI in 4096 octets: the route was learned over
        // a session with RFC 8654 extended messages, and is re-encoded within that limit
        codec.extended_length = true;
        codec.encode_to(m, &mut buf).expect("verif: encode_to");
    }
    buf.to_vec()
}

/// What the repository's own parser reads from one embedded PDU, under the
/// ADD-PATH setting stated by the record.
pub(crate) fn parse_pdu(fams: &[Family], addpath: bool, pdu: &[u8]) -> Val {
    let mut codec = bgp::PeerCodec::new();
    for f in fams {
        codec.set_family(
            *f,
            bgp::FamilyState {
                addpath_rx: addpath,
                ..Default::default()
            },
        );
    }
    // a PDU of more than 4096 octets can only come from a session with RFC 8654 extended messages
    codec.extended_length = pdu.len() > 4096;
    let mut src = bytes::BytesMut::from(pdu);
    let r = codec.try_parse(&mut src);
    let rest = Val::us(src.len());
    let reach_val = |r: &Option<bgp::ReachNlri>| match r {
        None => Val::L(vec![]),
        Some(r) => Val::L(vec![Val::L(vec![
            fam_val(&r.family),
            entries_val(&r.entries),
            nexthop_val(&r.nexthop),
        ])]),
    };
    let unreach_val = |r: &Option<bgp::UnreachNlri>| match r {
        None => Val::L(vec![]),
        Some(r) => Val::L(vec![Val::L(vec![fam_val(&r.family), entries_val(&r.entries)])]),
    };
    match r {
        Err(n) => Val::L(vec![
            Val::I(-2),
            Val::n(n.notification_code()),
            Val::n(n.notification_subcode()),
        ]),
        Ok(None) => Val::L(vec![Val::I(-3)]),
        Ok(Some(m)) => match m {
            bgp::ParsedMessage::Open(o) => Val::L(vec![
                Val::n(1u8),
                Val::n(o.as_number),
                Val::n(o.holdtime.seconds()),
                Val::n(o.router_id),
                caps::caps_val(&o.capability),
                rest,
            ]),
            bgp::ParsedMessage::Update(bgp::ParsedUpdate::Routes {
                reach,
                mp_reach,
                unreach,
                mp_unreach,
                attrs,
                error_attrs,
            }) => Val::L(vec![
                Val::n(2u8),
                reach_val(&reach),
                reach_val(&mp_reach),
                unreach_val(&unreach),
                unreach_val(&mp_unreach),
                attrs_val(&attrs),
                Val::us(error_attrs.len()),
                rest,
            ]),
            bgp::ParsedMessage::Update(bgp::ParsedUpdate::EndOfRib(f)) => {
                Val::L(vec![Val::n(6u8), fam_val(&f), rest])
            }
            bgp::ParsedMessage::Notification(n) => Val::L(vec![
                Val::n(3u8),
                Val::n(n.notification_code()),
                Val::n(n.notification_subcode()),
                Val::from_bytes(n.notification_data()),
                rest,
            ]),
            bgp::ParsedMessage::Keepalive => Val::L(vec![Val::n(4u8), rest]),
            bgp::ParsedMessage::RouteRefresh { family } => {
                Val::L(vec![Val::n(5u8), fam_val(&family), rest])
            }
        },
    }
}
