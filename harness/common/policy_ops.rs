// Conversions and the PolicyTable operation driver shared by harness/hx-policy
// (crate harness on the public API of rustybgp-table) and
// harness/daemon/event_policy_hx.rs (Global-level harness inside the daemon
// crate).  Included with `Val` in scope.  Encodings: gen/c14.py.
use std::net::{IpAddr, Ipv4Addr, Ipv6Addr};
use std::panic::{AssertUnwindSafe, catch_unwind};
use std::sync::Arc;

use rustybgp_packet::bgp::{Ipv4Net, Ipv6Net, Nexthop};
use rustybgp_packet::{Attribute, Family, Nlri};
use rustybgp_table::*;

fn name_of(v: &Val) -> String {
    format!("n{}", v.int())
}
fn name_id(s: &str) -> Val {
    Val::I(s[1..].parse::<i128>().unwrap_or(-1))
}

fn v6_of(hi: &Val, lo: &Val) -> Ipv6Addr {
    Ipv6Addr::from(((hi.u64() as u128) << 64) | lo.u64() as u128)
}
fn ip_of(v: &Val) -> IpAddr {
    let l = v.list();
    match l[0].int() {
        4 => IpAddr::V4(Ipv4Addr::from(l[1].u32())),
        6 => IpAddr::V6(v6_of(&l[1], &l[2])),
        t => panic!("verif: bad ip tag {}", t),
    }
}
fn v6_val(a: &Ipv6Addr, out: &mut Vec<Val>) {
    let x = u128::from(*a);
    out.push(Val::I((x >> 64) as i128));
    out.push(Val::I((x & 0xffff_ffff_ffff_ffff) as i128));
}
fn ip_val(a: &IpAddr) -> Val {
    match a {
        IpAddr::V4(a) => Val::L(vec![Val::n(4u8), Val::n(u32::from(*a))]),
        IpAddr::V6(a) => {
            let mut v = vec![Val::n(6u8)];
            v6_val(a, &mut v);
            Val::L(v)
        }
    }
}
fn nlri_of(v: &Val) -> Nlri {
    let l = v.list();
    match l[0].int() {
        4 => Nlri::V4(Ipv4Net {
            addr: Ipv4Addr::from(l[1].u32()),
            mask: l[2].u8(),
        }),
        6 => Nlri::V6(Ipv6Net {
            addr: v6_of(&l[1], &l[2]),
            mask: l[3].u8(),
        }),
        t => panic!("verif: bad nlri tag {}", t),
    }
}
fn nh_of(v: &Val) -> Option<Nexthop> {
    let l = v.list();
    if l.is_empty() {
        return None;
    }
    let n = l[0].list();
    Some(match n[0].int() {
        4 => Nexthop::V4(Ipv4Addr::from(n[1].u32())),
        6 => Nexthop::V6(v6_of(&n[1], &n[2])),
        7 => Nexthop::V6LinkLocal(v6_of(&n[1], &n[2]), v6_of(&n[3], &n[4])),
        t => panic!("verif: bad nexthop tag {}", t),
    })
}
fn nh_val(n: &Option<Nexthop>) -> Val {
    match n {
        None => Val::L(vec![]),
        Some(Nexthop::V4(a)) => Val::L(vec![Val::L(vec![Val::n(4u8), Val::n(u32::from(*a))])]),
        Some(Nexthop::V6(a)) => {
            let mut v = vec![Val::n(6u8)];
            v6_val(a, &mut v);
            Val::L(vec![Val::L(v)])
        }
        Some(Nexthop::V6LinkLocal(a, b)) => {
            let mut v = vec![Val::n(7u8)];
            v6_val(a, &mut v);
            v6_val(b, &mut v);
            Val::L(vec![Val::L(v)])
        }
    }
}

// attribute: [0, code, v] value | [1, code, bytes] binary | [2, code, flags, bytes] opaque
fn attr_of(v: &Val) -> Option<Attribute> {
    let l = v.list();
    match l[0].int() {
        0 => Attribute::new_with_value(l[1].u8(), l[2].u32()),
        1 => Attribute::new_with_bin(l[1].u8(), l[2].bytes()),
        2 => Some(Attribute::new_opaque(l[1].u8(), l[2].u8(), l[3].bytes())),
        t => panic!("verif: bad attribute tag {}", t),
    }
}
fn attr_val(a: &Attribute) -> Val {
    if let Some(v) = a.value() {
        Val::L(vec![Val::n(0u8), Val::n(a.code()), Val::n(a.flags()), Val::n(v)])
    } else {
        let b = a.binary().unwrap();
        Val::L(vec![
            Val::n(if a.is_opaque() { 2u8 } else { 1u8 }),
            Val::n(a.code()),
            Val::n(a.flags()),
            Val::from_bytes(b),
        ])
    }
}

fn str_of(v: &Val) -> String {
    String::from_utf8(v.bytes()).expect("utf8 pattern")
}

fn prefix_string(v: &Val) -> String {
    // [ip, mask] | [0] (malformed)
    let l = v.list();
    if l.len() < 2 {
        return "bogus".to_string();
    }
    format!("{}/{}", ip_of(&l[0]), l[1].int())
}

const WELL_KNOWN: [&str; 9] = [
    "graceful-shutdown",
    "accept-own",
    "llgr-stale",
    "no-llgr",
    "blackhole",
    "no-export",
    "no-advertise",
    "no-export-subconfed",
    "no-peer",
];

fn single_string(k: i128, a: u64, b: u64) -> String {
    match k {
        0 => format!("_{}_", a),
        1 => format!("^{}_", a),
        2 => format!("_{}$", a),
        3 => format!("^{}$", a),
        4 => format!("_{}-{}_", a, b),
        5 => format!("^{}-{}_", a, b),
        6 => format!("_{}-{}$", a, b),
        7 => format!("^{}-{}$", a, b),
        _ => panic!("verif: bad single kind"),
    }
}

fn pattern_string(kind: i128, v: &Val) -> String {
    let l = v.list();
    match (kind, l[0].int()) {
        (2, 0) => single_string(l[1].int(), l[2].u64(), l[3].u64()),
        (3, 0) => {
            if l[2].int() == 0 {
                format!("{}", l[1].u32())
            } else {
                format!("{}:{}", l[1].u32() >> 16, l[1].u32() & 0xffff)
            }
        }
        (3, 2) => {
            let s = WELL_KNOWN[l[1].usize()].to_string();
            if l[2].int() != 0 { s.to_uppercase() } else { s }
        }
        (_, 1) => str_of(&l[2]),
        _ => "(".to_string(),
    }
}

fn setcfg_of(v: &Val) -> DefinedSetConfig {
    let l = v.list();
    let kind = l[0].int();
    let name = name_of(&l[1]);
    let ents = l[2].list();
    match kind {
        0 => DefinedSetConfig::Prefix {
            name,
            prefixes: ents
                .iter()
                .map(|e| PrefixConfig {
                    ip_prefix: prefix_string(e.at(0)),
                    mask_length_min: e.at(1).u8(),
                    mask_length_max: e.at(2).u8(),
                })
                .collect(),
        },
        1 => DefinedSetConfig::Neighbor {
            name,
            neighbors: ents.iter().map(prefix_string).collect(),
        },
        2 => DefinedSetConfig::AsPath {
            name,
            patterns: ents.iter().map(|e| pattern_string(2, e)).collect(),
        },
        3 => DefinedSetConfig::Community {
            name,
            patterns: ents.iter().map(|e| pattern_string(3, e)).collect(),
        },
        4 => DefinedSetConfig::ExtCommunity {
            name,
            patterns: ents.iter().map(|e| pattern_string(4, e)).collect(),
        },
        5 => DefinedSetConfig::LargeCommunity {
            name,
            patterns: ents.iter().map(|e| pattern_string(5, e)).collect(),
        },
        t => panic!("verif: bad set kind {}", t),
    }
}

fn opt_of(v: &Val) -> MatchOption {
    match v.int() {
        0 => MatchOption::Any,
        1 => MatchOption::All,
        _ => MatchOption::Invert,
    }
}
fn opt_val(o: &MatchOption) -> Val {
    Val::I(i32::from(o) as i128)
}
fn cmp_of(v: &Val) -> Comparison {
    Comparison::from(v.int() as i32)
}
fn disp_of(v: &Val) -> Disposition {
    match v.int() {
        0 => Disposition::Pass,
        1 => Disposition::Accept,
        _ => Disposition::Reject,
    }
}
fn disp_val(d: Disposition) -> Val {
    Val::I(i32::from(d) as i128)
}
fn optdisp_of(v: &Val) -> Option<Disposition> {
    v.list().first().map(disp_of)
}

fn conds_of(v: &Val) -> Vec<ConditionConfig> {
    v.list()
        .iter()
        .map(|c| {
            let l = c.list();
            match l[0].int() {
                0 => ConditionConfig::PrefixSet(name_of(&l[1]), opt_of(&l[2])),
                1 => ConditionConfig::NeighborSet(name_of(&l[1]), opt_of(&l[2])),
                2 => ConditionConfig::AsPathSet(name_of(&l[1]), opt_of(&l[2])),
                3 => ConditionConfig::CommunitySet(name_of(&l[1]), opt_of(&l[2])),
                4 => ConditionConfig::ExtCommunitySet(name_of(&l[1]), opt_of(&l[2])),
                5 => ConditionConfig::LargeCommunitySet(name_of(&l[1]), opt_of(&l[2])),
                6 => ConditionConfig::AsPathLength(cmp_of(&l[1]), l[2].u32()),
                7 => ConditionConfig::Nexthop(l[1].list().iter().map(ip_of).collect()),
                8 => ConditionConfig::Rpki(match l[1].int() {
                    0 => RpkiValidationState::NotFound,
                    1 => RpkiValidationState::Valid,
                    _ => RpkiValidationState::Invalid,
                }),
                9 => ConditionConfig::LocalPrefEq(l[1].u32()),
                10 => ConditionConfig::MedEq(l[1].u32()),
                11 => ConditionConfig::Origin(l[1].u8()),
                12 => ConditionConfig::RouteType(match l[1].int() {
                    0 => RouteType::Internal,
                    1 => RouteType::External,
                    _ => RouteType::Local,
                }),
                13 => ConditionConfig::CommunityCount(cmp_of(&l[1]), l[2].u32()),
                14 => ConditionConfig::AfiSafiIn(
                    l[1].list()
                        .iter()
                        .map(|f| Family::new((f.u32() >> 16) as u16, (f.u32() & 0xff) as u8))
                        .collect(),
                ),
                t => panic!("verif: bad condition tag {}", t),
            }
        })
        .collect()
}

fn catype_of(v: &Val) -> CommunityActionType {
    match v.int() {
        0 => CommunityActionType::Add,
        1 => CommunityActionType::Remove,
        _ => CommunityActionType::Replace,
    }
}

// actions: [nexthop, community, local_pref, med, as_prepend, ext_community, large_community, origin]
// each an option ([] or [x]).
fn actions_of(v: &Val) -> Actions {
    let l = v.list();
    let some = |i: usize| -> Option<&Val> { l[i].list().first() };
    Actions {
        nexthop: some(0).map(|a| {
            let a = a.list();
            match a[0].int() {
                0 => NexthopAction::Address(ip_of(&a[1])),
                1 => NexthopAction::PeerSelf,
                2 => NexthopAction::PeerAddress,
                _ => NexthopAction::Unchanged,
            }
        }),
        community: some(1).map(|a| CommunityAction {
            action_type: catype_of(a.at(0)),
            communities: a.at(1).list().iter().map(|c| c.u32()).collect(),
        }),
        local_pref: some(2).map(|a| LocalPrefAction { value: a.u32() }),
        med: some(3).map(|a| MedAction {
            action_type: if a.at(0).int() == 0 {
                MedActionType::Mod
            } else {
                MedActionType::Replace
            },
            value: a.at(1).int() as i64,
        }),
        as_prepend: some(4).map(|a| AsPrependAction {
            asn: a.at(0).u32(),
            repeat: a.at(1).u32(),
            use_left_most: a.at(2).bool(),
        }),
        ext_community: some(5).map(|a| ExtCommunityAction {
            action_type: catype_of(a.at(0)),
            communities: a
                .at(1)
                .list()
                .iter()
                .map(|c| {
                    let b = c.bytes();
                    let mut x = [0u8; 8];
                    x.copy_from_slice(&b[..8]);
                    x
                })
                .collect(),
        }),
        large_community: some(6).map(|a| LargeCommunityAction {
            action_type: catype_of(a.at(0)),
            communities: a
                .at(1)
                .list()
                .iter()
                .map(|c| (c.at(0).u32(), c.at(1).u32(), c.at(2).u32()))
                .collect(),
        }),
        origin: some(7).map(|a| OriginAction { origin: a.u8() }),
    }
}

fn names_of(v: &Val) -> Vec<String> {
    v.list().iter().map(name_of).collect()
}

fn code_of<T>(r: Result<T, TableError>) -> Val {
    Val::L(vec![Val::n(match r {
        Ok(_) => 0u8,
        Err(TableError::InvalidArgument(_)) => 1,
        Err(TableError::StillInUse(_)) => 2,
        Err(TableError::NotFound) => 3,
        Err(TableError::AlreadyExists(_)) => 4,
    })])
}

fn dir_of(v: &Val) -> PolicyDirection {
    if v.int() == 0 {
        PolicyDirection::Import
    } else {
        PolicyDirection::Export
    }
}

fn source_of(v: &Val) -> Arc<Source> {
    let l = v.list();
    if l[0].bool() {
        return Source::local();
    }
    Arc::new(Source::new(
        ip_of(&l[1]),
        ip_of(&l[2]),
        l[3].u32(),
        l[4].u32(),
        Ipv4Addr::new(0, 0, 0, 1),
        PeerRole::Ebgp,
    ))
}

fn eval(t: &PolicyTable, rpki: Option<&RpkiTable>, l: &[Val]) -> Val {
    let dir = l[1].int();
    let a = t.iter_assignments(if dir == 0 { 1 } else { 2 }).next().map(|(_, a)| a);
    eval_with(a, rpki, l)
}

fn eval_with(assignment: Option<&PolicyAssignment>, rpki: Option<&RpkiTable>, l: &[Val]) -> Val {
    let dir = l[1].int();
    let Some(assignment) = assignment else {
        return Val::L(vec![Val::I(-2)]);
    };
    let source = source_of(&l[2]);
    let net = nlri_of(&l[3]);
    let attrs: Vec<Attribute> = l[4].list().iter().filter_map(attr_of).collect();
    let mut nexthop = nh_of(&l[5]);
    let orig = nh_of(&l[6]);
    if dir == 0 {
        let attrs = Arc::new(attrs);
        let (filtered, out) = apply_import(assignment, rpki, &source, &net, &attrs, &mut nexthop);
        Val::L(vec![
            Val::b(filtered),
            Val::L(out.iter().map(attr_val).collect()),
            nh_val(&nexthop),
        ])
    } else {
        let mut attr = Arc::new(attrs);
        let d = apply_export(
            assignment,
            rpki,
            &source,
            &net,
            &mut attr,
            &mut nexthop,
            orig,
            l[7].bool(),
            ip_of(&l[8]),
            ip_of(&l[9]),
        );
        Val::L(vec![
            disp_val(d),
            Val::L(attr.iter().map(attr_val).collect()),
            nh_val(&nexthop),
        ])
    }
}

// ---- dump of the table: names, references and whether each reference is the
// very object the table lists under that name (Arc identity).
fn dump(t: &PolicyTable) -> Val {
    let mut sets: Vec<(i128, String, *const (), Val)> = Vec::new();
    for s in t.iter_defined_sets() {
        match s {
            DefinedSetRef::Prefix(n, p) => {
                let mut ents: Vec<Val> = Vec::new();
                for (a, m, e) in p.v4.iter() {
                    ents.push(Val::L(vec![
                        Val::n(4u8),
                        Val::n(u32::from(a)),
                        Val::n(m),
                        Val::n(e.min_length),
                        Val::n(e.max_length),
                    ]));
                }
                for (a, m, e) in p.v6.iter() {
                    let mut v = vec![Val::n(6u8)];
                    v6_val(&a, &mut v);
                    v.push(Val::n(m));
                    v.push(Val::n(e.min_length));
                    v.push(Val::n(e.max_length));
                    ents.push(Val::L(v));
                }
                let z = |o: Option<(u8, u8)>| {
                    Val::opt(o.map(|(a, b)| Val::L(vec![Val::n(a), Val::n(b)])))
                };
                sets.push((
                    0,
                    n.to_string(),
                    p as *const PrefixSet as *const (),
                    Val::L(vec![Val::L(ents), z(p.zero), z(p.zero6)]),
                ));
            }
            DefinedSetRef::Neighbor(n, p) => sets.push((
                1,
                n.to_string(),
                p as *const NeighborSet as *const (),
                Val::L(vec![Val::us(p.sets.len())]),
            )),
            DefinedSetRef::AsPath(n, p) => sets.push((
                2,
                n.to_string(),
                p as *const AsPathSet as *const (),
                Val::L(vec![Val::us(p.single_sets.len()), Val::us(p.sets.len())]),
            )),
            DefinedSetRef::Community(n, p) => sets.push((
                3,
                n.to_string(),
                p as *const CommunitySet as *const (),
                Val::L(vec![Val::us(p.sets.len())]),
            )),
            DefinedSetRef::ExtCommunity(n, p) => sets.push((
                4,
                n.to_string(),
                p as *const ExtCommunitySet as *const (),
                Val::L(vec![Val::us(p.sets.len())]),
            )),
            DefinedSetRef::LargeCommunity(n, p) => sets.push((
                5,
                n.to_string(),
                p as *const LargeCommunitySet as *const (),
                Val::L(vec![Val::us(p.sets.len())]),
            )),
        }
    }
    sets.sort_by(|a, b| (a.0, name_id(&a.1).int()).cmp(&(b.0, name_id(&b.1).int())));
    let same_set = |kind: i128, name: &str, p: *const ()| -> Val {
        Val::b(sets.iter().any(|s| s.0 == kind && s.1 == name && s.2 == p))
    };

    let mut stmts: Vec<&Statement> = t.iter_statements(String::new()).collect();
    stmts.sort_by_key(|s| name_id(&s.name).int());
    let stmt_vals: Vec<Val> = stmts
        .iter()
        .map(|s| {
            let conds: Vec<Val> = s
                .conditions
                .iter()
                .map(|c| match c {
                    Condition::Prefix(n, o, a) => Val::L(vec![
                        Val::n(0u8),
                        name_id(n),
                        opt_val(o),
                        same_set(0, n, Arc::as_ptr(a) as *const ()),
                    ]),
                    Condition::Neighbor(n, o, a) => Val::L(vec![
                        Val::n(1u8),
                        name_id(n),
                        opt_val(o),
                        same_set(1, n, Arc::as_ptr(a) as *const ()),
                    ]),
                    Condition::AsPath(n, o, a) => Val::L(vec![
                        Val::n(2u8),
                        name_id(n),
                        opt_val(o),
                        same_set(2, n, Arc::as_ptr(a) as *const ()),
                    ]),
                    Condition::Community(n, o, a) => Val::L(vec![
                        Val::n(3u8),
                        name_id(n),
                        opt_val(o),
                        same_set(3, n, Arc::as_ptr(a) as *const ()),
                    ]),
                    Condition::ExtCommunity(n, o, a) => Val::L(vec![
                        Val::n(4u8),
                        name_id(n),
                        opt_val(o),
                        same_set(4, n, Arc::as_ptr(a) as *const ()),
                    ]),
                    Condition::LargeCommunity(n, o, a) => Val::L(vec![
                        Val::n(5u8),
                        name_id(n),
                        opt_val(o),
                        same_set(5, n, Arc::as_ptr(a) as *const ()),
                    ]),
                    Condition::AsPathLength(..) => Val::L(vec![Val::n(6u8)]),
                    Condition::Nexthop(..) => Val::L(vec![Val::n(7u8)]),
                    Condition::Rpki(..) => Val::L(vec![Val::n(8u8)]),
                    Condition::LocalPrefEq(..) => Val::L(vec![Val::n(9u8)]),
                    Condition::MedEq(..) => Val::L(vec![Val::n(10u8)]),
                    Condition::Origin(..) => Val::L(vec![Val::n(11u8)]),
                    Condition::RouteType(..) => Val::L(vec![Val::n(12u8)]),
                    Condition::CommunityCount(..) => Val::L(vec![Val::n(13u8)]),
                    Condition::AfiSafiIn(..) => Val::L(vec![Val::n(14u8)]),
                })
                .collect();
            let a = &s.actions;
            let mask = [
                a.nexthop.is_some(),
                a.community.is_some(),
                a.local_pref.is_some(),
                a.med.is_some(),
                a.as_prepend.is_some(),
                a.ext_community.is_some(),
                a.large_community.is_some(),
                a.origin.is_some(),
            ];
            Val::L(vec![
                name_id(&s.name),
                Val::L(conds),
                Val::opt(s.disposition.map(disp_val)),
                Val::L(mask.iter().map(|b| Val::b(*b)).collect()),
            ])
        })
        .collect();

    let mut pols: Vec<&Policy> = t.iter_policies(String::new()).collect();
    pols.sort_by_key(|p| name_id(&p.name).int());
    let pol_vals: Vec<Val> = pols
        .iter()
        .map(|p| {
            Val::L(vec![
                name_id(&p.name),
                Val::L(
                    p.statements
                        .iter()
                        .map(|s| {
                            Val::L(vec![
                                name_id(&s.name),
                                Val::b(stmts.iter().any(|x| std::ptr::eq(*x, Arc::as_ptr(s)))),
                            ])
                        })
                        .collect(),
                ),
            ])
        })
        .collect();

    let asg = |d: i32| -> Val {
        Val::opt(t.iter_assignments(d).next().map(|(_, a)| {
            Val::L(vec![
                disp_val(a.disposition),
                Val::L(
                    a.policies
                        .iter()
                        .map(|p| {
                            Val::L(vec![
                                name_id(&p.name),
                                Val::b(pols.iter().any(|x| std::ptr::eq(*x, Arc::as_ptr(p)))),
                            ])
                        })
                        .collect(),
                ),
                Val::b(a.needs_rpki),
            ])
        }))
    };

    Val::L(vec![
        Val::L(
            sets.iter()
                .map(|s| Val::L(vec![Val::I(s.0), name_id(&s.1), s.3.clone()]))
                .collect(),
        ),
        Val::L(stmt_vals),
        Val::L(pol_vals),
        asg(1),
        asg(2),
    ])
}

fn rpki_of(v: &Val) -> RpkiTable {
    // [[ip, mask, max_length, asn], ...]
    let mut t = RpkiTable::new();
    let src = Arc::new(IpAddr::V4(Ipv4Addr::new(192, 0, 2, 1)));
    for e in v.list() {
        let net = rustybgp_packet::IpNet::new(ip_of(e.at(0)), e.at(1).u8());
        t.insert(net, Arc::new(Roa::new(e.at(2).u8(), e.at(3).u32(), src.clone())));
    }
    t
}

// RpkiTable::validate as a function of (prefix, origin AS): probed with an
// empty attribute list and a source whose local AS is the origin.
fn probe(rpki: Option<&RpkiTable>, l: &[Val]) -> Val {
    let Some(r) = rpki else {
        return Val::L(vec![Val::I(-2)]);
    };
    let src = Arc::new(Source::new(
        IpAddr::V4(Ipv4Addr::new(10, 0, 0, 1)),
        IpAddr::V4(Ipv4Addr::new(10, 0, 0, 254)),
        65001,
        l[2].u32(),
        Ipv4Addr::new(0, 0, 0, 1),
        PeerRole::Ebgp,
    ));
    match r.validate(&src, &nlri_of(&l[1]), &Arc::new(Vec::new())) {
        None => Val::L(vec![]),
        Some(v) => Val::L(vec![Val::n(match v.state {
            RpkiValidationState::NotFound => 0u8,
            RpkiValidationState::Valid => 1,
            RpkiValidationState::Invalid => 2,
        })]),
    }
}

fn run_op(t: &mut PolicyTable, rpki: &mut Option<RpkiTable>, op: &Val) -> Val {
    let l = op.list();
    match l[0].int() {
        11 => {
            *rpki = Some(rpki_of(&l[1]));
            Val::L(vec![Val::n(0u8)])
        }
        12 => probe(rpki.as_ref(), l),
        1 => {
            let cfg = setcfg_of(&l[2]);
            if l[1].bool() {
                code_of(t.replace_defined_set(cfg))
            } else {
                code_of(t.add_defined_set(cfg))
            }
        }
        2 => code_of(t.delete_defined_set(setcfg_of(&l[2]), l[1].bool())),
        3 => code_of(t.add_statement(
            &name_of(&l[1]),
            conds_of(&l[2]),
            optdisp_of(&l[3]),
            actions_of(&l[4]),
        )),
        4 => code_of(t.delete_statement(
            &name_of(&l[1]),
            l[2].bool(),
            conds_of(&l[3]),
            optdisp_of(&l[4]),
            actions_of(&l[5]),
        )),
        5 => code_of(t.add_policy(&name_of(&l[1]), names_of(&l[2]))),
        6 => code_of(t.delete_policy(&name_of(&l[1]), l[2].bool(), l[3].bool(), names_of(&l[4]))),
        7 => {
            let dir = dir_of(&l[2]);
            let d = disp_of(&l[3]);
            let names = names_of(&l[4]);
            if l[1].int() == 0 {
                code_of(t.add_assignment("global", dir, d, names))
            } else {
                code_of(t.set_policy_assignment("global", dir, d, names))
            }
        }
        8 => code_of(t.delete_policy_assignment(dir_of(&l[1]), &names_of(&l[2]), l[3].bool())),
        9 => eval(t, rpki.as_ref(), l),
        10 => dump(t),
        x => panic!("verif: bad op {}", x),
    }
}

fn run_case(case: &Val) -> Val {
    let mut t = PolicyTable::new();
    let mut rpki: Option<RpkiTable> = None;
    let mut out = Vec::new();
    for op in case.list() {
        match catch_unwind(AssertUnwindSafe(|| run_op(&mut t, &mut rpki, op))) {
            Ok(v) => out.push(v),
            Err(_) => {
                out.push(Val::L(vec![Val::I(-1)]));
                break;
            }
        }
    }
    Val::L(out)
}

