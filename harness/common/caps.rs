// Capability <-> Val conversion (same numbering as coq/Model/Caps.v v_cap).
use super::val::Val;
use rustybgp_packet::bgp::{Capability, Family};

pub(crate) fn fam_of(v: &Val) -> Family {
    let x = v.u32();
    Family::new((x >> 16) as u16, (x & 0xff) as u8)
}

pub(crate) fn fam_val(f: &Family) -> Val {
    Val::I((((f.afi() as u32) << 16) | f.safi() as u32) as i128)
}

pub(crate) fn cap_of(v: &Val) -> Capability {
    let l = v.list();
    match l[0].int() {
        1 => Capability::MultiProtocol(fam_of(&l[1])),
        2 => Capability::RouteRefresh,
        5 => Capability::ExtendedNexthop(
            l[1].list().iter().map(|p| (fam_of(p.at(0)), p.at(1).u16())).collect(),
        ),
        6 => Capability::ExtendedMessage,
        64 => Capability::GracefulRestart {
            flags: l[1].u8(),
            restart_time: l[2].u16(),
            families: l[3].list().iter().map(|p| (fam_of(p.at(0)), p.at(1).u8())).collect(),
        },
        65 => Capability::FourOctetAsNumber(l[1].u32()),
        69 => Capability::AddPath(
            l[1].list().iter().map(|p| (fam_of(p.at(0)), p.at(1).u8())).collect(),
        ),
        70 => Capability::EnhancedRouteRefresh,
        71 => Capability::LongLivedGracefulRestart(
            l[1].list()
                .iter()
                .map(|p| (fam_of(p.at(0)), p.at(1).u8(), p.at(2).u32()))
                .collect(),
        ),
        73 => Capability::Fqdn {
            hostname: String::from_utf8_lossy(&l[1].bytes()).into_owned(),
            domain: String::from_utf8_lossy(&l[2].bytes()).into_owned(),
        },
        0 => Capability::Unknown {
            code: l[1].u8(),
            bin: l[2].bytes(),
        },
        t => panic!("verif: bad capability tag {}", t),
    }
}

pub(crate) fn caps_of(v: &Val) -> Vec<Capability> {
    v.list().iter().map(cap_of).collect()
}

pub(crate) fn cap_val(c: &Capability) -> Val {
    let pairs8 = |v: &Vec<(Family, u8)>| {
        Val::L(v.iter().map(|(f, m)| Val::L(vec![fam_val(f), Val::n(*m)])).collect())
    };
    match c {
        Capability::MultiProtocol(f) => Val::L(vec![Val::n(1u8), fam_val(f)]),
        Capability::RouteRefresh => Val::L(vec![Val::n(2u8)]),
        Capability::ExtendedNexthop(v) => Val::L(vec![
            Val::n(5u8),
            Val::L(v.iter().map(|(f, m)| Val::L(vec![fam_val(f), Val::n(*m)])).collect()),
        ]),
        Capability::ExtendedMessage => Val::L(vec![Val::n(6u8)]),
        Capability::GracefulRestart {
            flags,
            restart_time,
            families,
        } => Val::L(vec![Val::n(64u8), Val::n(*flags), Val::n(*restart_time), pairs8(families)]),
        Capability::FourOctetAsNumber(a) => Val::L(vec![Val::n(65u8), Val::n(*a)]),
        Capability::AddPath(v) => Val::L(vec![Val::n(69u8), pairs8(v)]),
        Capability::EnhancedRouteRefresh => Val::L(vec![Val::n(70u8)]),
        Capability::LongLivedGracefulRestart(v) => Val::L(vec![
            Val::n(71u8),
            Val::L(
                v.iter()
                    .map(|(f, m, t)| Val::L(vec![fam_val(f), Val::n(*m), Val::n(*t)]))
                    .collect(),
            ),
        ]),
        Capability::Fqdn { hostname, domain } => Val::L(vec![
            Val::n(73u8),
            Val::from_bytes(hostname.as_bytes()),
            Val::from_bytes(domain.as_bytes()),
        ]),
        Capability::Unknown { code, bin } => {
            Val::L(vec![Val::n(0u8), Val::n(*code), Val::from_bytes(bin)])
        }
    }
}

pub(crate) fn caps_val(v: &[Capability]) -> Val {
    Val::L(v.iter().map(cap_val).collect())
}
