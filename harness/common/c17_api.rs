// C17: conversions between the nested-integer case format and the API / internal
// values, shared by harness/daemon/convert_hx.rs and harness/daemon/grpc_hx.rs.
// Included as a child module of the harness module (which itself declares `mod val`).
use super::val::Val;
use crate::api;
use rustybgp_packet::bgp::{Attribute, Ipv4Net, Ipv6Net};
use rustybgp_packet::{self as packet, Nlri};
use std::net::{Ipv4Addr, Ipv6Addr};

pub(crate) fn i(n: i128) -> Val {
    Val::I(n)
}
pub(crate) fn s_val(s: &str) -> Val {
    Val::from_bytes(s.as_bytes())
}
pub(crate) fn s_of(v: &Val) -> String {
    // API strings are arbitrary byte strings in the cases; prost strings are UTF-8,
    // the generators only produce ASCII.
    String::from_utf8_lossy(&v.bytes()).into_owned()
}

// a value of more than 1024 octets is printed as [-7, length, sum mod 2^32, first 4, last 4]
pub(crate) fn bytes_digest_val(b: &[u8]) -> Val {
    if b.len() > 1024 {
        let sum = b.iter().fold(0u32, |acc, x| acc.wrapping_add(*x as u32));
        Val::L(vec![
            i(-7),
            Val::us(b.len()),
            Val::n(sum),
            Val::from_bytes(&b[..4]),
            Val::from_bytes(&b[b.len() - 4..]),
        ])
    } else {
        Val::from_bytes(b)
    }
}

pub(crate) fn attr_val(a: &Attribute) -> Val {
    if let Some(v) = a.value() {
        Val::L(vec![Val::n(a.code()), Val::n(a.flags()), i(0), Val::L(vec![Val::n(v)])])
    } else {
        let b = a.binary().unwrap();
        Val::L(vec![
            Val::n(a.code()),
            Val::n(a.flags()),
            i(if a.is_opaque() { 2 } else { 1 }),
            bytes_digest_val(b),
        ])
    }
}

pub(crate) fn extcom_val(x: &api::ExtendedCommunity) -> Val {
    use api::extended_community::Extcom as E;
    match &x.extcom {
        None => Val::L(vec![i(0)]),
        Some(E::TwoOctetAsSpecific(t)) => Val::L(vec![
            i(1),
            Val::b(t.is_transitive),
            Val::n(t.sub_type),
            Val::n(t.asn),
            Val::n(t.local_admin),
        ]),
        Some(E::Ipv4AddressSpecific(t)) => Val::L(vec![
            i(2),
            Val::b(t.is_transitive),
            Val::n(t.sub_type),
            s_val(&t.address),
            Val::n(t.local_admin),
        ]),
        Some(E::FourOctetAsSpecific(t)) => Val::L(vec![
            i(3),
            Val::b(t.is_transitive),
            Val::n(t.sub_type),
            Val::n(t.asn),
            Val::n(t.local_admin),
        ]),
        Some(E::Mup(m)) => Val::L(vec![
            i(4),
            Val::n(m.sub_type),
            Val::n(m.segment_id2),
            Val::n(m.segment_id4),
        ]),
        Some(E::Unknown(u)) => Val::L(vec![i(5), Val::n(u.r#type), Val::from_bytes(&u.value)]),
        Some(E::TrafficRate(t)) => Val::L(vec![i(6), Val::n(t.asn), Val::n(t.rate.to_bits())]),
        Some(E::TrafficAction(t)) => Val::L(vec![i(7), Val::b(t.terminal), Val::b(t.sample)]),
        Some(E::RedirectTwoOctetAsSpecific(t)) => {
            Val::L(vec![i(8), Val::n(t.asn), Val::n(t.local_admin)])
        }
        Some(E::TrafficRemark(t)) => Val::L(vec![i(9), Val::n(t.dscp)]),
        Some(E::RedirectIpv4AddressSpecific(t)) => {
            Val::L(vec![i(10), s_val(&t.address), Val::n(t.local_admin)])
        }
        Some(E::RedirectFourOctetAsSpecific(t)) => {
            Val::L(vec![i(11), Val::n(t.asn), Val::n(t.local_admin)])
        }
        Some(_) => Val::L(vec![i(99)]),
    }
}

pub(crate) fn extcom_of(v: &Val) -> api::ExtendedCommunity {
    use api::extended_community::Extcom as E;
    let l = v.list();
    let e = match l[0].int() {
        0 => None,
        1 => Some(E::TwoOctetAsSpecific(api::TwoOctetAsSpecificExtended {
            is_transitive: l[1].bool(),
            sub_type: l[2].u32(),
            asn: l[3].u32(),
            local_admin: l[4].u32(),
        })),
        2 => Some(E::Ipv4AddressSpecific(api::IPv4AddressSpecificExtended {
            is_transitive: l[1].bool(),
            sub_type: l[2].u32(),
            address: s_of(&l[3]),
            local_admin: l[4].u32(),
        })),
        3 => Some(E::FourOctetAsSpecific(api::FourOctetAsSpecificExtended {
            is_transitive: l[1].bool(),
            sub_type: l[2].u32(),
            asn: l[3].u32(),
            local_admin: l[4].u32(),
        })),
        4 => Some(E::Mup(api::MupExtended {
            sub_type: l[1].u32(),
            segment_id2: l[2].u32(),
            segment_id4: l[3].u32(),
        })),
        5 => Some(E::Unknown(api::UnknownExtended {
            r#type: l[1].u32(),
            value: l[2].bytes(),
        })),
        6 => Some(E::TrafficRate(api::TrafficRateExtended {
            asn: l[1].u32(),
            rate: f32::from_bits(l[2].u32()),
        })),
        7 => Some(E::TrafficAction(api::TrafficActionExtended {
            terminal: l[1].bool(),
            sample: l[2].bool(),
        })),
        8 => Some(E::RedirectTwoOctetAsSpecific(api::RedirectTwoOctetAsSpecificExtended {
            asn: l[1].u32(),
            local_admin: l[2].u32(),
        })),
        9 => Some(E::TrafficRemark(api::TrafficRemarkExtended { dscp: l[1].u32() })),
        10 => Some(E::RedirectIpv4AddressSpecific(api::RedirectIPv4AddressSpecificExtended {
            address: s_of(&l[1]),
            local_admin: l[2].u32(),
        })),
        11 => Some(E::RedirectFourOctetAsSpecific(api::RedirectFourOctetAsSpecificExtended {
            asn: l[1].u32(),
            local_admin: l[2].u32(),
        })),
        _ => Some(E::Color(api::ColorExtended { color: 7 })),
    };
    api::ExtendedCommunity { extcom: e }
}

pub(crate) fn api_val(a: &api::Attribute) -> Val {
    use api::attribute::Attr as A;
    match &a.attr {
        None => Val::L(vec![i(0)]),
        Some(A::Unknown(u)) => Val::L(vec![
            i(1),
            Val::n(u.flags),
            Val::n(u.r#type),
            Val::from_bytes(&u.value),
        ]),
        Some(A::Origin(o)) => Val::L(vec![i(2), Val::n(o.origin)]),
        Some(A::AsPath(p)) => Val::L(vec![
            i(3),
            Val::L(
                p.segments
                    .iter()
                    .map(|s| {
                        Val::L(vec![
                            Val::n(s.r#type),
                            Val::L(s.numbers.iter().map(|n| Val::n(*n)).collect()),
                        ])
                    })
                    .collect(),
            ),
        ]),
        Some(A::NextHop(n)) => Val::L(vec![i(4), s_val(&n.next_hop)]),
        Some(A::MultiExitDisc(m)) => Val::L(vec![i(5), Val::n(m.med)]),
        Some(A::LocalPref(m)) => Val::L(vec![i(6), Val::n(m.local_pref)]),
        Some(A::AtomicAggregate(_)) => Val::L(vec![i(7)]),
        Some(A::Aggregator(g)) => Val::L(vec![i(8), Val::n(g.asn), s_val(&g.address)]),
        Some(A::Communities(c)) => Val::L(vec![
            i(9),
            Val::L(c.communities.iter().map(|n| Val::n(*n)).collect()),
        ]),
        Some(A::OriginatorId(o)) => Val::L(vec![i(10), s_val(&o.id)]),
        Some(A::ClusterList(c)) => {
            Val::L(vec![i(11), Val::L(c.ids.iter().map(|s| s_val(s)).collect())])
        }
        Some(A::ExtendedCommunities(e)) => {
            Val::L(vec![i(14), Val::L(e.communities.iter().map(extcom_val).collect())])
        }
        Some(A::LargeCommunities(c)) => Val::L(vec![
            i(21),
            Val::L(
                c.communities
                    .iter()
                    .map(|x| {
                        Val::L(vec![
                            Val::n(x.global_admin),
                            Val::n(x.local_data1),
                            Val::n(x.local_data2),
                        ])
                    })
                    .collect(),
            ),
        ]),
        Some(A::MpReach(m)) => Val::L(vec![
            i(12),
            Val::opt(m.family.as_ref().map(|f| Val::L(vec![Val::n(f.afi), Val::n(f.safi)]))),
            Val::L(m.next_hops.iter().map(|s| s_val(s)).collect()),
        ]),
        Some(_) => Val::L(vec![i(99)]),
    }
}

pub(crate) fn api_of(v: &Val) -> api::Attribute {
    use api::attribute::Attr as A;
    let l = v.list();
    let attr = match l[0].int() {
        0 => None,
        1 => Some(A::Unknown(api::UnknownAttribute {
            flags: l[1].u32(),
            r#type: l[2].u32(),
            value: l[3].bytes(),
        })),
        2 => Some(A::Origin(api::OriginAttribute { origin: l[1].u32() })),
        3 => Some(A::AsPath(api::AsPathAttribute {
            segments: l[1]
                .list()
                .iter()
                .map(|s| api::AsSegment {
                    r#type: s.at(0).int() as i32,
                    numbers: s.at(1).list().iter().map(|n| n.u32()).collect(),
                })
                .collect(),
        })),
        4 => Some(A::NextHop(api::NextHopAttribute { next_hop: s_of(&l[1]) })),
        5 => Some(A::MultiExitDisc(api::MultiExitDiscAttribute { med: l[1].u32() })),
        6 => Some(A::LocalPref(api::LocalPrefAttribute { local_pref: l[1].u32() })),
        7 => Some(A::AtomicAggregate(api::AtomicAggregateAttribute {})),
        8 => Some(A::Aggregator(api::AggregatorAttribute {
            asn: l[1].u32(),
            address: s_of(&l[2]),
        })),
        9 => Some(A::Communities(api::CommunitiesAttribute {
            communities: l[1].list().iter().map(|n| n.u32()).collect(),
        })),
        10 => Some(A::OriginatorId(api::OriginatorIdAttribute { id: s_of(&l[1]) })),
        11 => Some(A::ClusterList(api::ClusterListAttribute {
            ids: l[1].list().iter().map(s_of).collect(),
        })),
        14 => Some(A::ExtendedCommunities(api::ExtendedCommunitiesAttribute {
            communities: l[1].list().iter().map(extcom_of).collect(),
        })),
        21 => Some(A::LargeCommunities(api::LargeCommunitiesAttribute {
            communities: l[1]
                .list()
                .iter()
                .map(|t| api::LargeCommunity {
                    global_admin: t.at(0).u32(),
                    local_data1: t.at(1).u32(),
                    local_data2: t.at(2).u32(),
                })
                .collect(),
        })),
        12 => Some(A::MpReach(api::MpReachNlriAttribute {
            family: l[1].list().first().map(|_| api::Family {
                afi: l[1].at(0).int() as i32,
                safi: l[1].at(1).int() as i32,
            }),
            next_hops: l[2].list().iter().map(s_of).collect(),
            nlris: vec![],
        })),
        13 => Some(A::MpUnreach(api::MpUnreachNlriAttribute { family: None, nlris: vec![] })),
        15 => Some(A::As4Path(api::As4PathAttribute { segments: vec![] })),
        16 => Some(A::As4Aggregator(api::As4AggregatorAttribute { asn: 1, address: "1.2.3.4".to_string() })),
        17 => Some(A::PmsiTunnel(api::PmsiTunnelAttribute { flags: 0, r#type: 6, label: 1, id: vec![1, 2, 3, 4] })),
        19 => Some(A::Ip6ExtendedCommunities(api::Ip6ExtendedCommunitiesAttribute { communities: vec![] })),
        _ => Some(A::Aigp(api::AigpAttribute { tlvs: vec![] })),
    };
    api::Attribute { attr }
}

pub(crate) fn v6_of(v: &Val) -> Ipv6Addr {
    let b = v.bytes();
    let mut a = [0u8; 16];
    a.copy_from_slice(&b[..16]);
    Ipv6Addr::from(a)
}

pub(crate) fn labels_val(l: &packet::mpls::MplsLabelStack) -> Val {
    Val::L(l.labels().iter().map(|x| Val::n(x.value())).collect())
}

pub(crate) fn nlri_val(n: &Nlri) -> Val {
    match n {
        Nlri::V4(x) => Val::L(vec![i(4), Val::n(u32::from(x.addr)), Val::n(x.mask)]),
        Nlri::V6(x) => Val::L(vec![i(6), Val::from_bytes(&x.addr.octets()), Val::n(x.mask)]),
        Nlri::LabeledV4(x) => Val::L(vec![
            i(14),
            labels_val(&x.labels),
            Val::n(u32::from(x.prefix.addr)),
            Val::n(x.prefix.mask),
        ]),
        Nlri::LabeledV6(x) => Val::L(vec![
            i(16),
            labels_val(&x.labels),
            Val::from_bytes(&x.prefix.addr.octets()),
            Val::n(x.prefix.mask),
        ]),
        Nlri::VpnV4(x) => Val::L(vec![
            i(24),
            labels_val(&x.labels),
            rd_bytes_val(&x.rd),
            Val::n(u32::from(x.prefix.addr)),
            Val::n(x.prefix.mask),
        ]),
        Nlri::VpnV6(x) => Val::L(vec![
            i(26),
            labels_val(&x.labels),
            rd_bytes_val(&x.rd),
            Val::from_bytes(&x.prefix.addr.octets()),
            Val::n(x.prefix.mask),
        ]),
        _ => Val::L(vec![i(99)]),
    }
}

pub(crate) fn rd_bytes_val(rd: &packet::rd::RouteDistinguisher) -> Val {
    let mut b = Vec::new();
    rd.encode(&mut b);
    Val::from_bytes(&b)
}

// [type, admin, assigned]
pub(crate) fn rd_of(v: &Val) -> packet::rd::RouteDistinguisher {
    use packet::rd::RouteDistinguisher as R;
    match v.at(0).int() {
        0 => R::TwoOctetAs { admin: v.at(1).u16(), assigned: v.at(2).u32() },
        1 => R::Ipv4 { admin: Ipv4Addr::from(v.at(1).u32()), assigned: v.at(2).u16() },
        _ => R::FourOctetAs { admin: v.at(1).u32(), assigned: v.at(2).u16() },
    }
}

pub(crate) fn api_rd_val(rd: &Option<api::RouteDistinguisher>) -> Val {
    use api::route_distinguisher::Rd;
    match rd.as_ref().and_then(|r| r.rd.as_ref()) {
        None => Val::L(vec![i(0)]),
        Some(Rd::TwoOctetAsn(r)) => Val::L(vec![i(1), Val::n(r.admin), Val::n(r.assigned)]),
        Some(Rd::IpAddress(r)) => Val::L(vec![i(2), s_val(&r.admin), Val::n(r.assigned)]),
        Some(Rd::FourOctetAsn(r)) => Val::L(vec![i(3), Val::n(r.admin), Val::n(r.assigned)]),
    }
}

pub(crate) fn api_rd_of(v: &Val) -> Option<api::RouteDistinguisher> {
    use api::route_distinguisher::Rd;
    let l = v.list();
    let rd = match l[0].int() {
        0 => return None,
        1 => Rd::TwoOctetAsn(api::RouteDistinguisherTwoOctetAsn { admin: l[1].u32(), assigned: l[2].u32() }),
        2 => Rd::IpAddress(api::RouteDistinguisherIpAddress { admin: s_of(&l[1]), assigned: l[2].u32() }),
        _ => Rd::FourOctetAsn(api::RouteDistinguisherFourOctetAsn { admin: l[1].u32(), assigned: l[2].u32() }),
    };
    Some(api::RouteDistinguisher { rd: Some(rd) })
}

pub(crate) fn nlri_of(v: &Val) -> Nlri {
    use packet::mpls::{MplsLabel, MplsLabelStack};
    let l = v.list();
    let stack = |v: &Val| MplsLabelStack::new(v.list().iter().map(|x| MplsLabel::new(x.u32())).collect());
    match l[0].int() {
        4 => Nlri::V4(Ipv4Net { addr: Ipv4Addr::from(l[1].u32()), mask: l[2].u8() }),
        6 => Nlri::V6(Ipv6Net { addr: v6_of(&l[1]), mask: l[2].u8() }),
        14 => Nlri::LabeledV4(packet::labeled::LabeledV4Nlri {
            labels: stack(&l[1]),
            prefix: Ipv4Net { addr: Ipv4Addr::from(l[2].u32()), mask: l[3].u8() },
        }),
        16 => Nlri::LabeledV6(packet::labeled::LabeledV6Nlri {
            labels: stack(&l[1]),
            prefix: Ipv6Net { addr: v6_of(&l[2]), mask: l[3].u8() },
        }),
        24 => Nlri::VpnV4(packet::vpn::VpnV4Nlri {
            labels: stack(&l[1]),
            rd: rd_of(&l[2]),
            prefix: Ipv4Net { addr: Ipv4Addr::from(l[3].u32()), mask: l[4].u8() },
        }),
        26 => Nlri::VpnV6(packet::vpn::VpnV6Nlri {
            labels: stack(&l[1]),
            rd: rd_of(&l[2]),
            prefix: Ipv6Net { addr: v6_of(&l[3]), mask: l[4].u8() },
        }),
        k => panic!("verif: unknown nlri tag {}", k),
    }
}

pub(crate) fn api_nlri_val(n: &api::Nlri) -> Val {
    match &n.nlri {
        None => Val::L(vec![i(0)]),
        Some(api::nlri::Nlri::Prefix(p)) => Val::L(vec![i(1), s_val(&p.prefix), Val::n(p.prefix_len)]),
        Some(api::nlri::Nlri::LabeledPrefix(p)) => Val::L(vec![
            i(2),
            Val::L(p.labels.iter().map(|x| Val::n(*x)).collect()),
            s_val(&p.prefix),
            Val::n(p.prefix_len),
        ]),
        Some(api::nlri::Nlri::LabeledVpnIpPrefix(p)) => Val::L(vec![
            i(3),
            Val::L(p.labels.iter().map(|x| Val::n(*x)).collect()),
            api_rd_val(&p.rd),
            s_val(&p.prefix),
            Val::n(p.prefix_len),
        ]),
        Some(_) => Val::L(vec![i(99)]),
    }
}

pub(crate) fn api_nlri_of(v: &Val) -> api::Nlri {
    let l = v.list();
    let nlri = match l[0].int() {
        0 => None,
        1 => Some(api::nlri::Nlri::Prefix(api::IpAddressPrefix {
            prefix: s_of(&l[1]),
            prefix_len: l[2].u32(),
        })),
        2 => Some(api::nlri::Nlri::LabeledPrefix(api::LabeledIpAddressPrefix {
            labels: l[1].list().iter().map(|x| x.u32()).collect(),
            prefix: s_of(&l[2]),
            prefix_len: l[3].u32(),
        })),
        3 => Some(api::nlri::Nlri::LabeledVpnIpPrefix(api::LabeledVpnipAddressPrefix {
            labels: l[1].list().iter().map(|x| x.u32()).collect(),
            rd: api_rd_of(&l[2]),
            prefix: s_of(&l[3]),
            prefix_len: l[4].u32(),
        })),
        k => panic!("verif: unknown api nlri tag {}", k),
    };
    api::Nlri { nlri }
}


// ---------------------------------------------------------------- EVPN
pub(crate) fn ip_val(a: &std::net::IpAddr) -> Val {
    match a {
        std::net::IpAddr::V4(x) => Val::L(vec![i(4), Val::n(u32::from(*x))]),
        std::net::IpAddr::V6(x) => Val::L(vec![i(6), Val::from_bytes(&x.octets())]),
    }
}

pub(crate) fn ip_of(v: &Val) -> std::net::IpAddr {
    if v.at(0).int() == 4 {
        std::net::IpAddr::V4(Ipv4Addr::from(v.at(1).u32()))
    } else {
        std::net::IpAddr::V6(v6_of(v.at(1)))
    }
}

pub(crate) fn evpn_val(n: &packet::evpn::EvpnNlri) -> Val {
    use packet::evpn::EvpnNlri as E;
    match n {
        E::EthernetAutoDiscovery(r) => Val::L(vec![
            i(1),
            rd_bytes_val(&r.rd),
            Val::from_bytes(&r.esi.0),
            Val::n(r.etag),
            Val::n(r.label),
        ]),
        E::MacIpAdvertisement(m) => Val::L(vec![
            i(2),
            rd_bytes_val(&m.rd),
            Val::from_bytes(&m.esi.0),
            Val::n(m.etag),
            Val::from_bytes(&m.mac),
            Val::opt(m.ip.as_ref().map(ip_val)),
            Val::n(m.label1),
            Val::opt(m.label2.map(Val::n)),
        ]),
        E::InclusiveMulticastEthernetTag(t) => {
            Val::L(vec![i(3), rd_bytes_val(&t.rd), Val::n(t.etag), ip_val(&t.originating_router_ip)])
        }
        E::EthernetSegment(r) => Val::L(vec![
            i(4),
            rd_bytes_val(&r.rd),
            Val::from_bytes(&r.esi.0),
            ip_val(&r.originating_router_ip),
        ]),
        E::EthernetIpPrefix(r) => Val::L(vec![
            i(5),
            rd_bytes_val(&r.rd),
            Val::from_bytes(&r.esi.0),
            Val::n(r.etag),
            ip_val(&r.ip_prefix),
            Val::n(r.prefix_len),
            ip_val(&r.gateway_ip),
            Val::n(r.label),
        ]),
    }
}

fn esi_of(v: &Val) -> packet::evpn::Esi {
    let b = v.bytes();
    let mut a = [0u8; 10];
    a.copy_from_slice(&b[..10]);
    packet::evpn::Esi(a)
}

// same shape as evpn_val, the route distinguisher given as [type, admin, assigned]
pub(crate) fn evpn_of(v: &Val) -> packet::evpn::EvpnNlri {
    use packet::evpn::*;
    let l = v.list();
    match l[0].int() {
        1 => EvpnNlri::EthernetAutoDiscovery(EthernetAutoDiscoveryRoute {
            rd: rd_of(&l[1]),
            esi: esi_of(&l[2]),
            etag: l[3].u32(),
            label: l[4].u32(),
        }),
        2 => {
            let mut mac = [0u8; 6];
            mac.copy_from_slice(&l[4].bytes()[..6]);
            EvpnNlri::MacIpAdvertisement(MacIpAdvertisement {
                rd: rd_of(&l[1]),
                esi: esi_of(&l[2]),
                etag: l[3].u32(),
                mac,
                ip: l[5].list().first().map(ip_of),
                label1: l[6].u32(),
                label2: l[7].list().first().map(|x| x.u32()),
            })
        }
        3 => EvpnNlri::InclusiveMulticastEthernetTag(InclusiveMulticastEthernetTag {
            rd: rd_of(&l[1]),
            etag: l[2].u32(),
            originating_router_ip: ip_of(&l[3]),
        }),
        4 => EvpnNlri::EthernetSegment(EthernetSegmentRoute {
            rd: rd_of(&l[1]),
            esi: esi_of(&l[2]),
            originating_router_ip: ip_of(&l[3]),
        }),
        _ => EvpnNlri::EthernetIpPrefix(EthernetIpPrefixRoute {
            rd: rd_of(&l[1]),
            esi: esi_of(&l[2]),
            etag: l[3].u32(),
            ip_prefix: ip_of(&l[4]),
            prefix_len: l[5].u8(),
            gateway_ip: ip_of(&l[6]),
            label: l[7].u32(),
        }),
    }
}

fn api_esi_val(e: &Option<api::EthernetSegmentIdentifier>) -> Val {
    match e {
        None => Val::L(vec![]),
        Some(e) => Val::L(vec![Val::n(e.r#type), Val::from_bytes(&e.value)]),
    }
}

fn api_esi_of(v: &Val) -> Option<api::EthernetSegmentIdentifier> {
    let l = v.list();
    if l.is_empty() {
        None
    } else {
        Some(api::EthernetSegmentIdentifier { r#type: l[0].u32(), value: l[1].bytes() })
    }
}

pub(crate) fn api_evpn_val(n: &api::Nlri) -> Val {
    use api::nlri::Nlri as N;
    match &n.nlri {
        Some(N::EvpnEthernetAd(r)) => Val::L(vec![
            i(1),
            api_rd_val(&r.rd),
            api_esi_val(&r.esi),
            Val::n(r.ethernet_tag),
            Val::n(r.label),
        ]),
        Some(N::EvpnMacadv(r)) => Val::L(vec![
            i(2),
            api_rd_val(&r.rd),
            api_esi_val(&r.esi),
            Val::n(r.ethernet_tag),
            s_val(&r.mac_address),
            s_val(&r.ip_address),
            Val::L(r.labels.iter().map(|x| Val::n(*x)).collect()),
        ]),
        Some(N::EvpnMulticast(r)) => {
            Val::L(vec![i(3), api_rd_val(&r.rd), Val::n(r.ethernet_tag), s_val(&r.ip_address)])
        }
        Some(N::EvpnEthernetSegment(r)) => {
            Val::L(vec![i(4), api_rd_val(&r.rd), api_esi_val(&r.esi), s_val(&r.ip_address)])
        }
        Some(N::EvpnIpPrefix(r)) => Val::L(vec![
            i(5),
            api_rd_val(&r.rd),
            api_esi_val(&r.esi),
            Val::n(r.ethernet_tag),
            s_val(&r.ip_prefix),
            Val::n(r.ip_prefix_len),
            s_val(&r.gw_address),
            Val::n(r.label),
        ]),
        _ => Val::L(vec![i(99)]),
    }
}

pub(crate) fn api_evpn_of(v: &Val) -> api::Nlri {
    use api::nlri::Nlri as N;
    let l = v.list();
    let n = match l[0].int() {
        1 => N::EvpnEthernetAd(api::EvpnEthernetAutoDiscoveryRoute {
            rd: api_rd_of(&l[1]),
            esi: api_esi_of(&l[2]),
            ethernet_tag: l[3].u32(),
            label: l[4].u32(),
        }),
        2 => N::EvpnMacadv(api::EvpnmacipAdvertisementRoute {
            rd: api_rd_of(&l[1]),
            esi: api_esi_of(&l[2]),
            ethernet_tag: l[3].u32(),
            mac_address: s_of(&l[4]),
            ip_address: s_of(&l[5]),
            labels: l[6].list().iter().map(|x| x.u32()).collect(),
        }),
        3 => N::EvpnMulticast(api::EvpnInclusiveMulticastEthernetTagRoute {
            rd: api_rd_of(&l[1]),
            ethernet_tag: l[2].u32(),
            ip_address: s_of(&l[3]),
        }),
        4 => N::EvpnEthernetSegment(api::EvpnEthernetSegmentRoute {
            rd: api_rd_of(&l[1]),
            esi: api_esi_of(&l[2]),
            ip_address: s_of(&l[3]),
        }),
        _ => N::EvpnIpPrefix(api::EvpnipPrefixRoute {
            rd: api_rd_of(&l[1]),
            esi: api_esi_of(&l[2]),
            ethernet_tag: l[3].u32(),
            ip_prefix: s_of(&l[4]),
            ip_prefix_len: l[5].u32(),
            gw_address: s_of(&l[6]),
            label: l[7].u32(),
        }),
    };
    api::Nlri { nlri: Some(n) }
}

// ---------------------------------------------------------------- kind 8: API NLRI messages of the other families
pub(crate) fn fs_rules_of(v: &Val) -> Vec<api::FlowSpecRule> {
    use api::flow_spec_rule::Rule as R;
    v.list()
        .iter()
        .map(|r| {
            let l = r.list();
            let rule = match l[0].int() {
                0 => None,
                1 => Some(R::IpPrefix(api::FlowSpecIpPrefix {
                    r#type: l[1].u32(),
                    prefix_len: l[2].u32(),
                    prefix: s_of(&l[3]),
                    offset: l[4].u32(),
                })),
                2 => Some(R::Component(api::FlowSpecComponent {
                    r#type: l[1].u32(),
                    items: l[2]
                        .list()
                        .iter()
                        .map(|x| api::FlowSpecComponentItem { op: x.at(0).u32(), value: x.at(1).u64() })
                        .collect(),
                })),
                _ => Some(R::Mac(api::FlowSpecMac { r#type: 1, address: "0:1:2:3:4:5".to_string() })),
            };
            api::FlowSpecRule { rule }
        })
        .collect()
}

pub(crate) fn fs_rules_val(rules: &[api::FlowSpecRule]) -> Val {
    use api::flow_spec_rule::Rule as R;
    Val::L(
        rules
            .iter()
            .map(|r| match &r.rule {
                None => Val::L(vec![i(0)]),
                Some(R::IpPrefix(p)) => Val::L(vec![
                    i(1),
                    Val::n(p.r#type),
                    Val::n(p.prefix_len),
                    s_val(&p.prefix),
                    Val::n(p.offset),
                ]),
                Some(R::Component(c)) => Val::L(vec![
                    i(2),
                    Val::n(c.r#type),
                    Val::L(c.items.iter().map(|x| Val::L(vec![Val::n(x.op), Val::n(x.value)])).collect()),
                ]),
                Some(R::Mac(_)) => Val::L(vec![i(3)]),
            })
            .collect(),
    )
}

pub(crate) fn api_rt_of(v: &Val) -> Option<api::RouteTarget> {
    use api::route_target::Rt;
    let l = v.list();
    if l.is_empty() {
        return None;
    }
    let rt = match l[0].int() {
        0 => None,
        1 => Some(Rt::TwoOctetAsSpecific(api::TwoOctetAsSpecificExtended {
            is_transitive: l[1].bool(),
            sub_type: l[2].u32(),
            asn: l[3].u32(),
            local_admin: l[4].u32(),
        })),
        2 => Some(Rt::Ipv4AddressSpecific(api::IPv4AddressSpecificExtended {
            is_transitive: l[1].bool(),
            sub_type: l[2].u32(),
            address: s_of(&l[3]),
            local_admin: l[4].u32(),
        })),
        _ => Some(Rt::FourOctetAsSpecific(api::FourOctetAsSpecificExtended {
            is_transitive: l[1].bool(),
            sub_type: l[2].u32(),
            asn: l[3].u32(),
            local_admin: l[4].u32(),
        })),
    };
    Some(api::RouteTarget { rt })
}

pub(crate) fn api_rt_val(rt: &Option<api::RouteTarget>) -> Val {
    use api::route_target::Rt;
    match rt {
        None => Val::L(vec![]),
        Some(r) => match &r.rt {
            None => Val::L(vec![i(0)]),
            Some(Rt::TwoOctetAsSpecific(t)) => Val::L(vec![
                i(1),
                Val::b(t.is_transitive),
                Val::n(t.sub_type),
                Val::n(t.asn),
                Val::n(t.local_admin),
            ]),
            Some(Rt::Ipv4AddressSpecific(t)) => Val::L(vec![
                i(2),
                Val::b(t.is_transitive),
                Val::n(t.sub_type),
                s_val(&t.address),
                Val::n(t.local_admin),
            ]),
            Some(Rt::FourOctetAsSpecific(t)) => Val::L(vec![
                i(3),
                Val::b(t.is_transitive),
                Val::n(t.sub_type),
                Val::n(t.asn),
                Val::n(t.local_admin),
            ]),
        },
    }
}

// [10, rules] FlowSpec | [11, rd, rules] VpnFlowSpec | [12, length, distinguisher, color, endpoint bytes] SrPolicy
// | [13, asn, rt] RouteTargetMembership | [14, rd, prefix] MUP ISD | [15, rd, address] MUP DSD
// | [16, rd, prefix, teid, qfi, ea_len, endpoint, sa_len, source] MUP T1ST | [17, rd, ea_len, endpoint, teid] MUP T2ST
#[allow(deprecated)]
pub(crate) fn api_xnlri_of(v: &Val) -> api::Nlri {
    use api::nlri::Nlri as N;
    let l = v.list();
    let n = match l[0].int() {
        10 => N::FlowSpec(api::FlowSpecNlri { rules: fs_rules_of(&l[1]) }),
        11 => N::VpnFlowSpec(api::VpnFlowSpecNlri { rd: api_rd_of(&l[1]), rules: fs_rules_of(&l[2]) }),
        12 => N::SrPolicy(api::SrPolicyNlri {
            length: l[1].u32(),
            distinguisher: l[2].u32(),
            color: l[3].u32(),
            endpoint: l[4].bytes(),
        }),
        13 => N::RouteTargetMembership(api::RouteTargetMembershipNlri { asn: l[1].u32(), rt: api_rt_of(&l[2]) }),
        18 => N::LsAddrPrefix(ls_addr_prefix_of(l)),
        14 => N::MupInterworkSegmentDiscovery(api::MupInterworkSegmentDiscoveryRoute {
            rd: api_rd_of(&l[1]),
            prefix: s_of(&l[2]),
        }),
        15 => N::MupDirectSegmentDiscovery(api::MupDirectSegmentDiscoveryRoute {
            rd: api_rd_of(&l[1]),
            address: s_of(&l[2]),
        }),
        16 => N::MupType1SessionTransformed(api::MupType1SessionTransformedRoute {
            rd: api_rd_of(&l[1]),
            prefix_length: 0,
            prefix: s_of(&l[2]),
            teid: l[3].u32(),
            qfi: l[4].u32(),
            endpoint_address_length: l[5].u32(),
            endpoint_address: s_of(&l[6]),
            source_address_length: l[7].u32(),
            source_address: s_of(&l[8]),
        }),
        _ => N::MupType2SessionTransformed(api::MupType2SessionTransformedRoute {
            rd: api_rd_of(&l[1]),
            endpoint_address_length: l[2].u32(),
            endpoint_address: s_of(&l[3]),
            teid: l[4].u32(),
        }),
    };
    api::Nlri { nlri: Some(n) }
}

#[allow(deprecated)]
pub(crate) fn api_xnlri_val(n: &api::Nlri) -> Val {
    use api::nlri::Nlri as N;
    match &n.nlri {
        Some(N::FlowSpec(f)) => Val::L(vec![i(10), fs_rules_val(&f.rules)]),
        Some(N::VpnFlowSpec(f)) => Val::L(vec![i(11), api_rd_val(&f.rd), fs_rules_val(&f.rules)]),
        Some(N::SrPolicy(s)) => Val::L(vec![
            i(12),
            Val::n(s.length),
            Val::n(s.distinguisher),
            Val::n(s.color),
            Val::from_bytes(&s.endpoint),
        ]),
        Some(N::RouteTargetMembership(r)) => Val::L(vec![i(13), Val::n(r.asn), api_rt_val(&r.rt)]),
        Some(N::MupInterworkSegmentDiscovery(r)) => Val::L(vec![i(14), api_rd_val(&r.rd), s_val(&r.prefix)]),
        Some(N::MupDirectSegmentDiscovery(r)) => Val::L(vec![i(15), api_rd_val(&r.rd), s_val(&r.address)]),
        Some(N::MupType1SessionTransformed(r)) => Val::L(vec![
            i(16),
            api_rd_val(&r.rd),
            s_val(&r.prefix),
            Val::n(r.teid),
            Val::n(r.qfi),
            Val::n(r.endpoint_address_length),
            s_val(&r.endpoint_address),
            Val::n(r.source_address_length),
            s_val(&r.source_address),
        ]),
        Some(N::LsAddrPrefix(a)) => ls_addr_prefix_val(a),
        Some(N::MupType2SessionTransformed(r)) => Val::L(vec![
            i(17),
            api_rd_val(&r.rd),
            Val::n(r.endpoint_address_length),
            s_val(&r.endpoint_address),
            Val::n(r.teid),
        ]),
        _ => Val::L(vec![i(99)]),
    }
}

// ---------------------------------------------------------------- kind 9: typed PREFIX_SID / TUNNEL_ENCAP messages
// PrefixSid: [tlv ...]; tlv = [0] | [3 | 4, [[key, [sub ...]] ...]] (3 = L3 service, 4 = L2 service);
//   sub = [0] | [1, sid bytes, endpoint behaviour, [[key, [subsub ...]] ...]]; subsub = [0] | [1, six lengths ...]
pub(crate) fn prefix_sid_api_of(v: &Val) -> api::PrefixSid {
    let subsubs = |v: &Val| -> std::collections::HashMap<u32, api::SRv6SubSubTlVs> {
        v.list()
            .iter()
            .map(|e| {
                let tlvs = e
                    .at(1)
                    .list()
                    .iter()
                    .map(|s| api::SRv6SubSubTlv {
                        tlv: if s.at(0).int() == 0 {
                            None
                        } else {
                            Some(api::s_rv6_sub_sub_tlv::Tlv::Structure(api::SRv6StructureSubSubTlv {
                                locator_block_length: s.at(1).u32(),
                                locator_node_length: s.at(2).u32(),
                                function_length: s.at(3).u32(),
                                argument_length: s.at(4).u32(),
                                transposition_length: s.at(5).u32(),
                                transposition_offset: s.at(6).u32(),
                            }))
                        },
                    })
                    .collect();
                (e.at(0).u32(), api::SRv6SubSubTlVs { tlvs })
            })
            .collect()
    };
    let subs = |v: &Val| -> std::collections::HashMap<u32, api::SRv6SubTlVs> {
        v.list()
            .iter()
            .map(|e| {
                let tlvs = e
                    .at(1)
                    .list()
                    .iter()
                    .map(|s| api::SRv6SubTlv {
                        tlv: if s.at(0).int() == 0 {
                            None
                        } else {
                            Some(api::s_rv6_sub_tlv::Tlv::Information(api::SRv6InformationSubTlv {
                                sid: s.at(1).bytes(),
                                flags: Some(api::SRv6SidFlags { flag_1: false }),
                                endpoint_behavior: s.at(2).u32(),
                                sub_sub_tlvs: subsubs(s.at(3)),
                            }))
                        },
                    })
                    .collect();
                (e.at(0).u32(), api::SRv6SubTlVs { tlvs })
            })
            .collect()
    };
    let tlvs = v
        .list()
        .iter()
        .map(|t| api::prefix_sid::Tlv {
            tlv: match t.at(0).int() {
                0 => None,
                3 => Some(api::prefix_sid::tlv::Tlv::L3Service(api::SRv6L3ServiceTlv { sub_tlvs: subs(t.at(1)) })),
                _ => Some(api::prefix_sid::tlv::Tlv::L2Service(api::SRv6L2ServiceTlv { sub_tlvs: subs(t.at(1)) })),
            },
        })
        .collect();
    api::PrefixSid { tlvs }
}

pub(crate) fn prefix_sid_api_val(p: &api::PrefixSid) -> Val {
    fn sorted<T>(m: &std::collections::HashMap<u32, T>) -> Vec<(&u32, &T)> {
        let mut v: Vec<_> = m.iter().collect();
        v.sort_by_key(|e| *e.0);
        v
    }
    let subsubs = |m: &std::collections::HashMap<u32, api::SRv6SubSubTlVs>| -> Val {
        Val::L(
            sorted(m)
                .into_iter()
                .map(|(k, t)| {
                    Val::L(vec![
                        Val::n(*k),
                        Val::L(
                            t.tlvs
                                .iter()
                                .map(|s| match &s.tlv {
                                    None => Val::L(vec![i(0)]),
                                    Some(api::s_rv6_sub_sub_tlv::Tlv::Structure(x)) => Val::L(vec![
                                        i(1),
                                        Val::n(x.locator_block_length),
                                        Val::n(x.locator_node_length),
                                        Val::n(x.function_length),
                                        Val::n(x.argument_length),
                                        Val::n(x.transposition_length),
                                        Val::n(x.transposition_offset),
                                    ]),
                                })
                                .collect(),
                        ),
                    ])
                })
                .collect(),
        )
    };
    let subs = |m: &std::collections::HashMap<u32, api::SRv6SubTlVs>| -> Val {
        Val::L(
            sorted(m)
                .into_iter()
                .map(|(k, t)| {
                    Val::L(vec![
                        Val::n(*k),
                        Val::L(
                            t.tlvs
                                .iter()
                                .map(|s| match &s.tlv {
                                    None => Val::L(vec![i(0)]),
                                    Some(api::s_rv6_sub_tlv::Tlv::Information(x)) => Val::L(vec![
                                        i(1),
                                        Val::from_bytes(&x.sid),
                                        Val::n(x.endpoint_behavior),
                                        subsubs(&x.sub_sub_tlvs),
                                    ]),
                                })
                                .collect(),
                        ),
                    ])
                })
                .collect(),
        )
    };
    Val::L(
        p.tlvs
            .iter()
            .map(|t| match &t.tlv {
                None => Val::L(vec![i(0)]),
                Some(api::prefix_sid::tlv::Tlv::L3Service(x)) => Val::L(vec![i(3), subs(&x.sub_tlvs)]),
                Some(api::prefix_sid::tlv::Tlv::L2Service(x)) => Val::L(vec![i(4), subs(&x.sub_tlvs)]),
            })
            .collect(),
    )
}

// TunnelEncap: [tlv ...]; tlv = [tunnel type, [sub ...]]; sub =
//   [0] oneof missing | [1, flags, preference] | [2, 0] binding SID without a form | [2, 1, s, i, sid bytes] MPLS
//   | [2, 2, s, i, b, sid bytes, ebs] SRv6 | [3, flags, enlp] | [4, priority] | [5, name] | [6, weight, [segment ...]]
//   | [7, type, value] unknown | [8, colour] (stands for the sub-TLV kinds the converter does not know)
//   ebs = [] | [behaviour, block, node, function, argument]; weight = [] | [flags, weight];
//   segment = [0] | [1, fl, label] | [2, fl, sid bytes, ebs]; fl = [] | [v, a, s, b]
fn ebs_of(v: &Val) -> Option<api::SRv6EndPointBehavior> {
    let l = v.list();
    if l.is_empty() {
        None
    } else {
        Some(api::SRv6EndPointBehavior {
            behavior: l[0].int() as i32,
            block_len: l[1].u32(),
            node_len: l[2].u32(),
            func_len: l[3].u32(),
            arg_len: l[4].u32(),
        })
    }
}
fn ebs_val(e: &Option<api::SRv6EndPointBehavior>) -> Val {
    match e {
        None => Val::L(vec![]),
        Some(e) => Val::L(vec![
            Val::n(e.behavior),
            Val::n(e.block_len),
            Val::n(e.node_len),
            Val::n(e.func_len),
            Val::n(e.arg_len),
        ]),
    }
}
fn segflags_of(v: &Val) -> Option<api::SegmentFlags> {
    let l = v.list();
    if l.is_empty() {
        None
    } else {
        Some(api::SegmentFlags { v_flag: l[0].bool(), a_flag: l[1].bool(), s_flag: l[2].bool(), b_flag: l[3].bool() })
    }
}
fn segflags_val(f: &Option<api::SegmentFlags>) -> Val {
    match f {
        None => Val::L(vec![]),
        Some(f) => Val::L(vec![Val::b(f.v_flag), Val::b(f.a_flag), Val::b(f.s_flag), Val::b(f.b_flag)]),
    }
}

pub(crate) fn tunnel_encap_api_of(v: &Val) -> api::TunnelEncapAttribute {
    use api::tunnel_encap_sub_tlvsr_binding_sid::Bsid;
    use api::tunnel_encap_sub_tlvsr_segment_list::{Segment, segment::Segment as Seg};
    use api::tunnel_encap_tlv::tlv::Tlv as T;
    let sub = |s: &Val| -> api::tunnel_encap_tlv::Tlv {
        let l = s.list();
        let tlv = match l[0].int() {
            0 => None,
            1 => Some(T::SrPreference(api::TunnelEncapSubTlvsrPreference { flags: l[1].u32(), preference: l[2].u32() })),
            2 => Some(T::SrBindingSid(api::TunnelEncapSubTlvsrBindingSid {
                bsid: match l[1].int() {
                    0 => None,
                    1 => Some(Bsid::SrBindingSid(api::SrBindingSid {
                        s_flag: l[2].bool(),
                        i_flag: l[3].bool(),
                        sid: l[4].bytes(),
                    })),
                    _ => Some(Bsid::Srv6BindingSid(api::SRv6BindingSid {
                        s_flag: l[2].bool(),
                        i_flag: l[3].bool(),
                        b_flag: l[4].bool(),
                        sid: l[5].bytes(),
                        endpoint_behavior_structure: ebs_of(&l[6]),
                    })),
                },
            })),
            3 => Some(T::SrEnlp(api::TunnelEncapSubTlvsrenlp { flags: l[1].u32(), enlp: l[2].int() as i32 })),
            4 => Some(T::SrPriority(api::TunnelEncapSubTlvsrPriority { priority: l[1].u32() })),
            5 => Some(T::SrCandidatePathName(api::TunnelEncapSubTlvsrCandidatePathName {
                candidate_path_name: s_of(&l[1]),
            })),
            6 => Some(T::SrSegmentList(api::TunnelEncapSubTlvsrSegmentList {
                weight: {
                    let w = l[1].list();
                    if w.is_empty() { None } else { Some(api::SrWeight { flags: w[0].u32(), weight: w[1].u32() }) }
                },
                segments: l[2]
                    .list()
                    .iter()
                    .map(|g| Segment {
                        segment: match g.at(0).int() {
                            0 => None,
                            1 => Some(Seg::A(api::SegmentTypeA { flags: segflags_of(g.at(1)), label: g.at(2).u32() })),
                            _ => Some(Seg::B(api::SegmentTypeB {
                                flags: segflags_of(g.at(1)),
                                sid: g.at(2).bytes(),
                                endpoint_behavior_structure: ebs_of(g.at(3)),
                            })),
                        },
                    })
                    .collect(),
            })),
            7 => Some(T::Unknown(api::TunnelEncapSubTlvUnknown { r#type: l[1].u32(), value: l[2].bytes() })),
            _ => Some(T::Color(api::TunnelEncapSubTlvColor { color: l[1].u32() })),
        };
        api::tunnel_encap_tlv::Tlv { tlv }
    };
    api::TunnelEncapAttribute {
        tlvs: v
            .list()
            .iter()
            .map(|t| api::TunnelEncapTlv { r#type: t.at(0).u32(), tlvs: t.at(1).list().iter().map(sub).collect() })
            .collect(),
    }
}

pub(crate) fn tunnel_encap_api_val(a: &api::TunnelEncapAttribute) -> Val {
    use api::tunnel_encap_sub_tlvsr_binding_sid::Bsid;
    use api::tunnel_encap_sub_tlvsr_segment_list::segment::Segment as Seg;
    use api::tunnel_encap_tlv::tlv::Tlv as T;
    let sub = |s: &api::tunnel_encap_tlv::Tlv| -> Val {
        match &s.tlv {
            None => Val::L(vec![i(0)]),
            Some(T::SrPreference(p)) => Val::L(vec![i(1), Val::n(p.flags), Val::n(p.preference)]),
            Some(T::SrBindingSid(b)) => match &b.bsid {
                None => Val::L(vec![i(2), i(0)]),
                Some(Bsid::SrBindingSid(x)) => {
                    Val::L(vec![i(2), i(1), Val::b(x.s_flag), Val::b(x.i_flag), Val::from_bytes(&x.sid)])
                }
                Some(Bsid::Srv6BindingSid(x)) => Val::L(vec![
                    i(2),
                    i(2),
                    Val::b(x.s_flag),
                    Val::b(x.i_flag),
                    Val::b(x.b_flag),
                    Val::from_bytes(&x.sid),
                    ebs_val(&x.endpoint_behavior_structure),
                ]),
            },
            Some(T::SrEnlp(e)) => Val::L(vec![i(3), Val::n(e.flags), Val::n(e.enlp)]),
            Some(T::SrPriority(p)) => Val::L(vec![i(4), Val::n(p.priority)]),
            Some(T::SrCandidatePathName(n)) => Val::L(vec![i(5), s_val(&n.candidate_path_name)]),
            Some(T::SrSegmentList(sl)) => Val::L(vec![
                i(6),
                match &sl.weight {
                    None => Val::L(vec![]),
                    Some(w) => Val::L(vec![Val::n(w.flags), Val::n(w.weight)]),
                },
                Val::L(
                    sl.segments
                        .iter()
                        .map(|g| match &g.segment {
                            None => Val::L(vec![i(0)]),
                            Some(Seg::A(a)) => Val::L(vec![i(1), segflags_val(&a.flags), Val::n(a.label)]),
                            Some(Seg::B(b)) => Val::L(vec![
                                i(2),
                                segflags_val(&b.flags),
                                Val::from_bytes(&b.sid),
                                ebs_val(&b.endpoint_behavior_structure),
                            ]),
                        })
                        .collect(),
                ),
            ]),
            Some(T::Unknown(u)) => Val::L(vec![i(7), Val::n(u.r#type), Val::from_bytes(&u.value)]),
            Some(_) => Val::L(vec![i(8), i(0)]),
        }
    };
    Val::L(a.tlvs.iter().map(|t| Val::L(vec![Val::n(t.r#type), Val::L(t.tlvs.iter().map(sub).collect())])).collect())
}

// LsAttribute (kind 9, w = 2): [node, link, prefix, peer segment, extras]
//   node = [] | [name, flags ([] | six 0/1), router id, router id v6, isis area, opaque, SR capabilities ([] | [v4, v6, [[begin, end] ...]]),
//                SR algorithms, SR local block ([] | [[begin, end] ...])]
//   link = [] | [name, local id, local id v6, remote id, remote id v6, admin group, TE metric, IGP metric, opaque, bandwidth bits, reservable bits,
//                [unreserved bits ...], adjacency SID, [srlg ...], End.X ([] | [behaviour, flags, algorithm, weight, [sid text ...], structure ([] | four lengths)]),
//                delay anomalous, delay, min/max anomalous, min, max, variation]
//   prefix = [] | [IGP flags ([] | four 0/1), opaque, prefix SID, [[algorithm, flags, sid] ...]]
//   peer segment = [] | [node SID, adjacency SID, set SID], each [] | [flags ([] | four 0/1), weight, sid]
//   extras: 0 none | 1 an SRv6 SID part | 2 a flex-algo definition | 3 a flex-algo prefix metric (parts the converter has no encoding for)
fn ls_ranges_of(v: &Val) -> Vec<api::LsSrRange> {
    v.list().iter().map(|r| api::LsSrRange { begin: r.at(0).u32(), end: r.at(1).u32() }).collect()
}
fn ls_ranges_val(r: &[api::LsSrRange]) -> Val {
    Val::L(r.iter().map(|r| Val::L(vec![Val::n(r.begin), Val::n(r.end)])).collect())
}
fn ls_peer_sid_of(v: &Val) -> Option<api::LsBgpPeerSegmentSid> {
    let l = v.list();
    if l.is_empty() {
        return None;
    }
    let f = l[0].list();
    Some(api::LsBgpPeerSegmentSid {
        flags: if f.is_empty() {
            None
        } else {
            Some(api::LsBgpPeerSegmentSidFlags { value: f[0].bool(), local: f[1].bool(), backup: f[2].bool(), persistent: f[3].bool() })
        },
        weight: l[1].u32(),
        sid: l[2].u32(),
    })
}
fn ls_peer_sid_val(s: &Option<api::LsBgpPeerSegmentSid>) -> Val {
    match s {
        None => Val::L(vec![]),
        Some(s) => Val::L(vec![
            match &s.flags {
                None => Val::L(vec![]),
                Some(f) => Val::L(vec![Val::b(f.value), Val::b(f.local), Val::b(f.backup), Val::b(f.persistent)]),
            },
            Val::n(s.weight),
            Val::n(s.sid),
        ]),
    }
}

pub(crate) fn ls_attr_api_of(v: &Val) -> api::LsAttribute {
    let node = {
        let l = v.at(0).list();
        if l.is_empty() {
            None
        } else {
            let f = l[1].list();
            let c = l[6].list();
            let b = l[8].list();
            Some(api::LsAttributeNode {
                name: s_of(&l[0]),
                flags: if f.is_empty() {
                    None
                } else {
                    Some(api::LsNodeFlags {
                        overload: f[0].bool(),
                        attached: f[1].bool(),
                        external: f[2].bool(),
                        abr: f[3].bool(),
                        router: f[4].bool(),
                        v6: f[5].bool(),
                    })
                },
                local_router_id: s_of(&l[2]),
                local_router_id_v6: s_of(&l[3]),
                isis_area: l[4].bytes(),
                opaque: l[5].bytes(),
                sr_capabilities: if c.is_empty() {
                    None
                } else {
                    Some(api::LsSrCapabilities { ipv4_supported: c[0].bool(), ipv6_supported: c[1].bool(), ranges: ls_ranges_of(&c[2]) })
                },
                sr_algorithms: l[7].bytes(),
                sr_local_block: if b.is_empty() { None } else { Some(api::LsSrLocalBlock { ranges: ls_ranges_of(&b[0]) }) },
                flex_algo_defs: if v.at(4).int() == 2 { vec![api::LsAttributeFlexAlgoDef::default()] } else { vec![] },
            })
        }
    };
    let link = {
        let l = v.at(1).list();
        if l.is_empty() {
            None
        } else {
            let x = l[14].list();
            Some(api::LsAttributeLink {
                name: s_of(&l[0]),
                local_router_id: s_of(&l[1]),
                local_router_id_v6: s_of(&l[2]),
                remote_router_id: s_of(&l[3]),
                remote_router_id_v6: s_of(&l[4]),
                admin_group: l[5].u32(),
                default_te_metric: l[6].u32(),
                igp_metric: l[7].u32(),
                opaque: l[8].bytes(),
                bandwidth: f32::from_bits(l[9].u32()),
                reservable_bandwidth: f32::from_bits(l[10].u32()),
                unreserved_bandwidth: l[11].list().iter().map(|b| f32::from_bits(b.u32())).collect(),
                sr_adjacency_sid: l[12].u32(),
                srlgs: l[13].list().iter().map(|s| s.u32()).collect(),
                srv6_end_x_sid: if x.is_empty() {
                    None
                } else {
                    let ss = x[5].list();
                    Some(api::LsSrv6EndXsid {
                        endpoint_behavior: x[0].u32(),
                        flags: x[1].u32(),
                        algorithm: x[2].u32(),
                        weight: x[3].u32(),
                        reserved: 0,
                        sids: x[4].list().iter().map(s_of).collect(),
                        srv6_sid_structure: if ss.is_empty() {
                            None
                        } else {
                            Some(api::LsSrv6SidStructure {
                                local_block: ss[0].u32(),
                                local_node: ss[1].u32(),
                                local_func: ss[2].u32(),
                                local_arg: ss[3].u32(),
                            })
                        },
                    })
                },
                unidirectional_link_delay_anomalous: l[15].bool(),
                unidirectional_link_delay: l[16].u32(),
                min_max_unidirectional_link_delay_anomalous: l[17].bool(),
                min_unidirectional_link_delay: l[18].u32(),
                max_unidirectional_link_delay: l[19].u32(),
                unidirectional_delay_variation: l[20].u32(),
            })
        }
    };
    let prefix = {
        let l = v.at(2).list();
        if l.is_empty() {
            None
        } else {
            let f = l[0].list();
            Some(api::LsAttributePrefix {
                igp_flags: if f.is_empty() {
                    None
                } else {
                    Some(api::LsIgpFlags { down: f[0].bool(), no_unicast: f[1].bool(), local_address: f[2].bool(), propagate_nssa: f[3].bool() })
                },
                opaque: l[1].bytes(),
                sr_prefix_sid: l[2].u32(),
                sr_prefix_sids: l[3]
                    .list()
                    .iter()
                    .map(|p| api::LsAttributePrefixSid { algorithm: p.at(0).u32(), flags: p.at(1).u32(), sid: p.at(2).u32() })
                    .collect(),
                fad_prefix_metrics: if v.at(4).int() == 3 { vec![api::LsAttributeFadPrefixMetric::default()] } else { vec![] },
            })
        }
    };
    let bgp_peer_segment = {
        let l = v.at(3).list();
        if l.is_empty() {
            None
        } else {
            Some(api::LsAttributeBgpPeerSegment {
                bgp_peer_node_sid: ls_peer_sid_of(&l[0]),
                bgp_peer_adjacency_sid: ls_peer_sid_of(&l[1]),
                bgp_peer_set_sid: ls_peer_sid_of(&l[2]),
            })
        }
    };
    api::LsAttribute {
        node,
        link,
        prefix,
        bgp_peer_segment,
        srv6_sid: if v.at(4).int() == 1 {
            Some(api::LsAttributeSrv6Sid {
                srv6_sid_structure: Some(api::LsSrv6SidStructure { local_block: 40, local_node: 24, local_func: 16, local_arg: 0 }),
                ..Default::default()
            })
        } else {
            None
        },
    }
}

pub(crate) fn ls_attr_api_val(a: &api::LsAttribute) -> Val {
    let node = match &a.node {
        None => Val::L(vec![]),
        Some(n) => Val::L(vec![
            s_val(&n.name),
            match &n.flags {
                None => Val::L(vec![]),
                Some(f) => Val::L(vec![Val::b(f.overload), Val::b(f.attached), Val::b(f.external), Val::b(f.abr), Val::b(f.router), Val::b(f.v6)]),
            },
            s_val(&n.local_router_id),
            s_val(&n.local_router_id_v6),
            Val::from_bytes(&n.isis_area),
            Val::from_bytes(&n.opaque),
            match &n.sr_capabilities {
                None => Val::L(vec![]),
                Some(c) => Val::L(vec![Val::b(c.ipv4_supported), Val::b(c.ipv6_supported), ls_ranges_val(&c.ranges)]),
            },
            Val::from_bytes(&n.sr_algorithms),
            match &n.sr_local_block {
                None => Val::L(vec![]),
                Some(b) => Val::L(vec![ls_ranges_val(&b.ranges)]),
            },
        ]),
    };
    let link = match &a.link {
        None => Val::L(vec![]),
        Some(l) => Val::L(vec![
            s_val(&l.name),
            s_val(&l.local_router_id),
            s_val(&l.local_router_id_v6),
            s_val(&l.remote_router_id),
            s_val(&l.remote_router_id_v6),
            Val::n(l.admin_group),
            Val::n(l.default_te_metric),
            Val::n(l.igp_metric),
            Val::from_bytes(&l.opaque),
            Val::n(l.bandwidth.to_bits()),
            Val::n(l.reservable_bandwidth.to_bits()),
            Val::L(l.unreserved_bandwidth.iter().map(|b| Val::n(b.to_bits())).collect()),
            Val::n(l.sr_adjacency_sid),
            Val::L(l.srlgs.iter().map(|s| Val::n(*s)).collect()),
            match &l.srv6_end_x_sid {
                None => Val::L(vec![]),
                Some(x) => Val::L(vec![
                    Val::n(x.endpoint_behavior),
                    Val::n(x.flags),
                    Val::n(x.algorithm),
                    Val::n(x.weight),
                    Val::L(x.sids.iter().map(|s| s_val(s)).collect()),
                    match &x.srv6_sid_structure {
                        None => Val::L(vec![]),
                        Some(s) => Val::L(vec![Val::n(s.local_block), Val::n(s.local_node), Val::n(s.local_func), Val::n(s.local_arg)]),
                    },
                ]),
            },
            Val::b(l.unidirectional_link_delay_anomalous),
            Val::n(l.unidirectional_link_delay),
            Val::b(l.min_max_unidirectional_link_delay_anomalous),
            Val::n(l.min_unidirectional_link_delay),
            Val::n(l.max_unidirectional_link_delay),
            Val::n(l.unidirectional_delay_variation),
        ]),
    };
    let prefix = match &a.prefix {
        None => Val::L(vec![]),
        Some(p) => Val::L(vec![
            match &p.igp_flags {
                None => Val::L(vec![]),
                Some(f) => Val::L(vec![Val::b(f.down), Val::b(f.no_unicast), Val::b(f.local_address), Val::b(f.propagate_nssa)]),
            },
            Val::from_bytes(&p.opaque),
            Val::n(p.sr_prefix_sid),
            Val::L(p.sr_prefix_sids.iter().map(|s| Val::L(vec![Val::n(s.algorithm), Val::n(s.flags), Val::n(s.sid)])).collect()),
        ]),
    };
    let bps = match &a.bgp_peer_segment {
        None => Val::L(vec![]),
        Some(b) => Val::L(vec![
            ls_peer_sid_val(&b.bgp_peer_node_sid),
            ls_peer_sid_val(&b.bgp_peer_adjacency_sid),
            ls_peer_sid_val(&b.bgp_peer_set_sid),
        ]),
    };
    Val::L(vec![node, link, prefix, bps, Val::b(a.srv6_sid.is_some())])
}

// [18, type, protocol id, identifier, inner] LsAddrPrefix; inner = [0] no route | [1, node] | [2, local, remote, link descriptor]
//   | [3, local, prefix descriptor] (IPv4) | [4, local, prefix descriptor] (IPv6) | [5, local, sids ([] = no information | [[text ...]]), multi-topology ids ([] | [[id ...]])]
//   node = [] | [asn, bgp-ls id, ospf area, pseudonode, igp router id, bgp router id, confederation member]
//   link descriptor = [] | [local id, remote id, interface v4, neighbour v4, interface v6, neighbour v6]
//   prefix descriptor = [] | [[reachability text ...], ospf route type]
fn ls_node_of(v: &Val) -> Option<api::LsNodeDescriptor> {
    let l = v.list();
    if l.is_empty() {
        return None;
    }
    Some(api::LsNodeDescriptor {
        asn: l[0].u32(),
        bgp_ls_id: l[1].u32(),
        ospf_area_id: l[2].u32(),
        pseudonode: l[3].bool(),
        igp_router_id: s_of(&l[4]),
        bgp_router_id: s_of(&l[5]),
        bgp_confederation_member: l[6].u32(),
    })
}
fn ls_node_val(n: &Option<api::LsNodeDescriptor>) -> Val {
    match n {
        None => Val::L(vec![]),
        Some(n) => Val::L(vec![
            Val::n(n.asn),
            Val::n(n.bgp_ls_id),
            Val::n(n.ospf_area_id),
            Val::b(n.pseudonode),
            s_val(&n.igp_router_id),
            s_val(&n.bgp_router_id),
            Val::n(n.bgp_confederation_member),
        ]),
    }
}
fn ls_pfx_desc_of(v: &Val) -> Option<api::LsPrefixDescriptor> {
    let l = v.list();
    if l.is_empty() {
        return None;
    }
    Some(api::LsPrefixDescriptor { ip_reachability: l[0].list().iter().map(s_of).collect(), ospf_route_type: l[1].int() as i32 })
}
fn ls_pfx_desc_val(p: &Option<api::LsPrefixDescriptor>) -> Val {
    match p {
        None => Val::L(vec![]),
        Some(p) => Val::L(vec![Val::L(p.ip_reachability.iter().map(|s| s_val(s)).collect()), Val::n(p.ospf_route_type)]),
    }
}

pub(crate) fn ls_addr_prefix_of(l: &[Val]) -> api::LsAddrPrefix {
    use api::ls_addr_prefix::ls_nlri::Nlri as O;
    let x = l[4].list();
    let inner = match x[0].int() {
        0 => None,
        1 => Some(O::Node(api::LsNodeNlri { local_node: ls_node_of(&x[1]) })),
        2 => {
            let d = x[3].list();
            Some(O::Link(api::LsLinkNlri {
                local_node: ls_node_of(&x[1]),
                remote_node: ls_node_of(&x[2]),
                link_descriptor: if d.is_empty() {
                    None
                } else {
                    Some(api::LsLinkDescriptor {
                        link_local_id: d[0].u32(),
                        link_remote_id: d[1].u32(),
                        interface_addr_ipv4: s_of(&d[2]),
                        neighbor_addr_ipv4: s_of(&d[3]),
                        interface_addr_ipv6: s_of(&d[4]),
                        neighbor_addr_ipv6: s_of(&d[5]),
                    })
                },
            }))
        }
        3 => Some(O::PrefixV4(api::LsPrefixV4nlri { local_node: ls_node_of(&x[1]), prefix_descriptor: ls_pfx_desc_of(&x[2]) })),
        4 => Some(O::PrefixV6(api::LsPrefixV6nlri { local_node: ls_node_of(&x[1]), prefix_descriptor: ls_pfx_desc_of(&x[2]) })),
        _ => {
            let s = x[2].list();
            let m = x[3].list();
            Some(O::Srv6Sid(api::LsSrv6Sidnlri {
                local_node: ls_node_of(&x[1]),
                srv6_sid_information: if s.is_empty() {
                    None
                } else {
                    Some(api::LsSrv6SidInformation { sids: s[0].list().iter().map(s_of).collect() })
                },
                multi_topo_id: if m.is_empty() {
                    None
                } else {
                    Some(api::LsMultiTopologyIdentifier { multi_topo_ids: m[0].list().iter().map(|i| i.u32()).collect() })
                },
            }))
        }
    };
    api::LsAddrPrefix {
        r#type: l[1].int() as i32,
        nlri: inner.map(|n| api::ls_addr_prefix::LsNlri { nlri: Some(n) }),
        length: 0,
        protocol_id: l[2].int() as i32,
        identifier: l[3].u64(),
    }
}

pub(crate) fn ls_addr_prefix_val(a: &api::LsAddrPrefix) -> Val {
    use api::ls_addr_prefix::ls_nlri::Nlri as O;
    let inner = match a.nlri.as_ref().and_then(|n| n.nlri.as_ref()) {
        None => Val::L(vec![i(0)]),
        Some(O::Node(n)) => Val::L(vec![i(1), ls_node_val(&n.local_node)]),
        Some(O::Link(n)) => Val::L(vec![
            i(2),
            ls_node_val(&n.local_node),
            ls_node_val(&n.remote_node),
            match &n.link_descriptor {
                None => Val::L(vec![]),
                Some(d) => Val::L(vec![
                    Val::n(d.link_local_id),
                    Val::n(d.link_remote_id),
                    s_val(&d.interface_addr_ipv4),
                    s_val(&d.neighbor_addr_ipv4),
                    s_val(&d.interface_addr_ipv6),
                    s_val(&d.neighbor_addr_ipv6),
                ]),
            },
        ]),
        Some(O::PrefixV4(n)) => Val::L(vec![i(3), ls_node_val(&n.local_node), ls_pfx_desc_val(&n.prefix_descriptor)]),
        Some(O::PrefixV6(n)) => Val::L(vec![i(4), ls_node_val(&n.local_node), ls_pfx_desc_val(&n.prefix_descriptor)]),
        Some(O::Srv6Sid(n)) => Val::L(vec![
            i(5),
            ls_node_val(&n.local_node),
            match &n.srv6_sid_information {
                None => Val::L(vec![]),
                Some(s) => Val::L(vec![Val::L(s.sids.iter().map(|t| s_val(t)).collect())]),
            },
            match &n.multi_topo_id {
                None => Val::L(vec![]),
                Some(m) => Val::L(vec![Val::L(m.multi_topo_ids.iter().map(|t| Val::n(*t)).collect())]),
            },
        ]),
    };
    Val::L(vec![i(18), Val::n(a.r#type), Val::n(a.protocol_id), Val::n(a.identifier), inner])
}
