// Correspondence harness for the wire decoders of rustybgp-packet (C03, C05).
//
// Cases (one nested-integer array per line, see harness/common/val.rs):
//   [0, bytes]                         bfd::Message::decode
//   [1, [chunk, ...]]                  RtrCodec::decode fed chunk by chunk, drained like tokio's FramedRead
//   [2, codec, [chunk, ...]]           PeerCodec::try_parse fed chunk by chunk, drained like PeerSession::run_select
//   [3, codec, is_ebgp, bytes]         validate_message(try_parse(bytes), is_ebgp)   (C05)
// codec = [ext_len, two_byte_as, ext_nh, [[family, addpath_rx], ...]]
//
// Observations are documented next to the printers; the Coq models print the
// same shapes (coq/Model/Bfd.v, Rtr.v, WireMsg.v: v_* functions).
use bytes::BytesMut;
use rustybgp_packet::bgp::{
    Attribute, Capability, Family, FamilyState, Message, Nexthop, Nlri, ParsedMessage, ParsedUpdate,
    PathNlri, PeerCodec, Update,
};
use rustybgp_packet::{bfd, rpki};
use tokio_util::codec::Decoder;

#[allow(dead_code)]
mod val {
    include!(concat!(env!("VERIF_HX_DIR"), "/common/val.rs"));
}
use val::Val;

fn l(v: Vec<Val>) -> Val {
    Val::L(v)
}

// The u32 inside Family is private and keeps the reserved octet of the wire
// form; Debug prints it as `Family(<u32>)`.
fn fam_raw(f: &Family) -> Val {
    let s = format!("{:?}", f);
    let n: u32 = s
        .trim_start_matches("Family(")
        .trim_end_matches(')')
        .parse()
        .expect("Family debug format");
    Val::n(n)
}

fn fam_of(v: &Val) -> Family {
    let x = v.u32();
    Family::new((x >> 16) as u16, (x & 0xff) as u8)
}

// ------------------------------------------------------------------ BFD
fn bfd_case(bytes: &[u8]) -> Val {
    match bfd::Message::decode(bytes) {
        Ok(m) => l(vec![
            Val::n(0u8),
            Val::n(m.diagnostic.0),
            Val::n(m.state as u8),
            Val::b(m.poll),
            Val::b(m.final_),
            Val::b(m.control_plane_independent),
            Val::b(m.demand),
            Val::n(m.detect_multiplier),
            Val::n(m.my_discriminator),
            Val::n(m.your_discriminator),
            Val::n(m.desired_min_tx_interval),
            Val::n(m.required_min_rx_interval),
            Val::n(m.required_min_echo_rx_interval),
        ]),
        Err(e) => {
            let (k, v) = match e {
                bfd::Error::InvalidLength(n) => (0u8, n as u64),
                bfd::Error::InvalidVersion(v) => (1, v as u64),
                bfd::Error::InvalidState(v) => (2, v as u64),
                bfd::Error::InvalidDiagnostic(v) => (3, v as u64),
                bfd::Error::Io => (4, 0),
            };
            l(vec![Val::n(1u8), Val::n(k), Val::n(v)])
        }
    }
}

// ------------------------------------------------------------------ RTR
fn rtr_msg_val(m: &rpki::Message) -> Val {
    use rpki::Message as M;
    match m {
        M::SerialNotify {
            session_id,
            serial_number,
        } => l(vec![Val::n(0u8), Val::n(*session_id), Val::n(*serial_number)]),
        M::SerialQuery {
            session_id,
            serial_number,
        } => l(vec![Val::n(1u8), Val::n(*session_id), Val::n(*serial_number)]),
        M::ResetQuery => l(vec![Val::n(2u8)]),
        M::CacheResponse { session_id } => l(vec![Val::n(3u8), Val::n(*session_id)]),
        M::IpPrefix(p) => {
            let (t, mask, addr) = match &p.net {
                rustybgp_packet::IpNet::V4(n) => (4u8, n.mask, n.addr.octets().to_vec()),
                rustybgp_packet::IpNet::V6(n) => (6u8, n.mask, n.addr.octets().to_vec()),
            };
            l(vec![
                Val::n(t),
                Val::n(p.flags),
                Val::n(mask),
                Val::n(p.max_length),
                Val::from_bytes(&addr),
                Val::n(p.as_number),
            ])
        }
        M::EndOfData {
            session_id,
            serial_number,
            refresh_interval,
            retry_interval,
            expire_interval,
        } => l(vec![
            Val::n(7u8),
            Val::n(*session_id),
            Val::n(*serial_number),
            Val::n(*refresh_interval),
            Val::n(*retry_interval),
            Val::n(*expire_interval),
        ]),
        M::CacheReset => l(vec![Val::n(8u8)]),
        M::ErrorReport { error_code } => l(vec![Val::n(10u8), Val::n(*error_code)]),
    }
}

const MAX_DRAIN: usize = 100_000;

// Events: [0, msg, remaining] message returned; [1, remaining] need more (end of this chunk);
// [2, remaining] decoder error (stream ends); [9] a message was returned with nothing
// consumed (tokio would call again at once: spin) - the harness stops there.
//
// fresh = true: the decoder object is re-created before EVERY call, so that nothing but the
// buffer can carry over from one call to the next (the memoryless reference run that the
// oracle compares the normal run with: gen/c03.py oracle_memoryless).
fn rtr_case(chunks: &[Val], fresh: bool) -> Val {
    let mut codec = rpki::RtrCodec::new();
    let mut buf = BytesMut::new();
    let mut ev = Vec::new();
    'outer: for ch in chunks {
        buf.extend_from_slice(&ch.bytes());
        for _ in 0..MAX_DRAIN {
            let before = buf.len();
            if fresh {
                codec = rpki::RtrCodec::new();
            }
            match codec.decode(&mut buf) {
                Ok(Some(m)) => {
                    ev.push(l(vec![Val::n(0u8), rtr_msg_val(&m), Val::us(buf.len())]));
                    if buf.len() == before {
                        ev.push(l(vec![Val::n(9u8)]));
                        break 'outer;
                    }
                }
                Ok(None) => {
                    ev.push(l(vec![Val::n(1u8), Val::us(buf.len())]));
                    break;
                }
                Err(_) => {
                    ev.push(l(vec![Val::n(2u8), Val::us(buf.len())]));
                    break 'outer;
                }
            }
        }
    }
    l(ev)
}

// ------------------------------------------------------------------ BGP
fn codec_of(v: &Val) -> PeerCodec {
    let ext_len = v.at(0).bool();
    let two_byte = v.at(1).bool();
    let ext_nh = v.at(2).bool();
    let fams: Vec<(Family, bool)> = v
        .at(3)
        .list()
        .iter()
        .map(|p| (fam_of(p.at(0)), p.at(1).bool()))
        .collect();
    // `extended_nexthop` is private: it can only be obtained through negotiate,
    // which also enters IPv4; the generators set ext_nh only together with IPv4.
    let mut codec = if ext_nh {
        let caps = vec![
            Capability::MultiProtocol(Family::IPV4),
            Capability::ExtendedNexthop(vec![(Family::IPV4, Family::AFI_IP6)]),
        ];
        PeerCodec::negotiate(&caps, &caps)
    } else {
        PeerCodec::new()
    };
    codec.extended_length = ext_len;
    codec.two_byte_as = two_byte;
    for (f, rx) in fams {
        codec.set_family(
            f,
            FamilyState {
                addpath_rx: rx,
                addpath_tx: false,
            },
        );
    }
    codec
}

fn cap_val(c: &Capability) -> Val {
    let pairs8 = |v: &Vec<(Family, u8)>| {
        l(v.iter().map(|(f, m)| l(vec![fam_raw(f), Val::n(*m)])).collect())
    };
    match c {
        Capability::MultiProtocol(f) => l(vec![Val::n(1u8), fam_raw(f)]),
        Capability::RouteRefresh => l(vec![Val::n(2u8)]),
        Capability::ExtendedNexthop(v) => l(vec![
            Val::n(5u8),
            l(v.iter().map(|(f, m)| l(vec![fam_raw(f), Val::n(*m)])).collect()),
        ]),
        Capability::ExtendedMessage => l(vec![Val::n(6u8)]),
        Capability::GracefulRestart {
            flags,
            restart_time,
            families,
        } => l(vec![Val::n(64u8), Val::n(*flags), Val::n(*restart_time), pairs8(families)]),
        Capability::FourOctetAsNumber(a) => l(vec![Val::n(65u8), Val::n(*a)]),
        Capability::AddPath(v) => l(vec![Val::n(69u8), pairs8(v)]),
        Capability::EnhancedRouteRefresh => l(vec![Val::n(70u8)]),
        Capability::LongLivedGracefulRestart(v) => l(vec![
            Val::n(71u8),
            l(v.iter()
                .map(|(f, m, t)| l(vec![fam_raw(f), Val::n(*m), Val::n(*t)]))
                .collect()),
        ]),
        Capability::Fqdn { hostname, domain } => l(vec![
            Val::n(73u8),
            Val::from_bytes(hostname.as_bytes()),
            Val::from_bytes(domain.as_bytes()),
        ]),
        Capability::Unknown { code, bin } => l(vec![Val::n(0u8), Val::n(*code), Val::from_bytes(bin)]),
    }
}

fn labels_val(s: &rustybgp_packet::mpls::MplsLabelStack) -> Val {
    l(s.labels().iter().map(|x| Val::n(x.value())).collect())
}

fn rd_val(rd: &rustybgp_packet::rd::RouteDistinguisher) -> Val {
    let mut b = Vec::new();
    rd.encode(&mut b);
    Val::from_bytes(&b)
}

// nlri: [0,mask,addr4] [1,mask,addr16] [2,labels,mask,addr4] [3,labels,mask,addr16]
//       [4,labels,rd8,mask,addr4] [5,labels,rd8,mask,addr16] [10,evpn encode()] [11,rtc encode()]
//       [12,sr-policy encode()] [13,kind,rd,components] (flowspec) [14,mup encode()] [9] (family not modelled)
fn nlri_val(n: &Nlri) -> Val {
    match n {
        Nlri::V4(p) => l(vec![Val::n(0u8), Val::n(p.mask), Val::from_bytes(&p.addr.octets())]),
        Nlri::V6(p) => l(vec![Val::n(1u8), Val::n(p.mask), Val::from_bytes(&p.addr.octets())]),
        Nlri::LabeledV4(x) => l(vec![
            Val::n(2u8),
            labels_val(&x.labels),
            Val::n(x.prefix.mask),
            Val::from_bytes(&x.prefix.addr.octets()),
        ]),
        Nlri::LabeledV6(x) => l(vec![
            Val::n(3u8),
            labels_val(&x.labels),
            Val::n(x.prefix.mask),
            Val::from_bytes(&x.prefix.addr.octets()),
        ]),
        Nlri::VpnV4(x) => l(vec![
            Val::n(4u8),
            labels_val(&x.labels),
            rd_val(&x.rd),
            Val::n(x.prefix.mask),
            Val::from_bytes(&x.prefix.addr.octets()),
        ]),
        Nlri::VpnV6(x) => l(vec![
            Val::n(5u8),
            labels_val(&x.labels),
            rd_val(&x.rd),
            Val::n(x.prefix.mask),
            Val::from_bytes(&x.prefix.addr.octets()),
        ]),
        Nlri::Evpn(x) => {
            let mut b = Vec::new();
            x.encode(&mut b);
            l(vec![Val::n(10u8), Val::from_bytes(&b)])
        }
        Nlri::Rtc(x) => {
            let mut b = Vec::new();
            x.encode(&mut b);
            l(vec![Val::n(11u8), Val::from_bytes(&b)])
        }
        Nlri::SrPolicy(x) => {
            let mut b = Vec::new();
            x.encode(&mut b);
            l(vec![Val::n(12u8), Val::from_bytes(&b)])
        }
        Nlri::Ls(x) => ls_val(x),
        Nlri::Mup(x) => {
            let mut b = Vec::new();
            x.encode(&mut b);
            l(vec![Val::n(14u8), Val::from_bytes(&b)])
        }
        Nlri::FlowspecV4(x) => l(vec![
            Val::n(13u8),
            Val::n(0u8),
            l(vec![]),
            l(x.components.iter().map(fs4_val).collect()),
        ]),
        Nlri::FlowspecV6(x) => l(vec![
            Val::n(13u8),
            Val::n(1u8),
            l(vec![]),
            l(x.components.iter().map(fs6_val).collect()),
        ]),
        Nlri::FlowspecVpnV4(x) => l(vec![
            Val::n(13u8),
            Val::n(2u8),
            rd_val(&x.rd),
            l(x.components.iter().map(fs4_val).collect()),
        ]),
        Nlri::FlowspecVpnV6(x) => l(vec![
            Val::n(13u8),
            Val::n(3u8),
            rd_val(&x.rd),
            l(x.components.iter().map(fs6_val).collect()),
        ]),
        _ => l(vec![Val::n(9u8)]),
    }
}

// flowspec component: [type, 0, bits, offset, addr] for the two prefix types, [type, 1, [[op bits, value], ...]] otherwise
fn ops_val(t: u8, ops: &[rustybgp_packet::flowspec::Op]) -> Val {
    l(vec![
        Val::n(t),
        Val::n(1u8),
        l(ops.iter().map(|o| l(vec![Val::n(o.bits), Val::n(o.value)])).collect()),
    ])
}

fn fs4_val(c: &rustybgp_packet::flowspec::FlowspecV4Component) -> Val {
    use rustybgp_packet::flowspec::FlowspecV4Component as C;
    let p = |t: u8, n: &rustybgp_packet::bgp::Ipv4Net| {
        l(vec![Val::n(t), Val::n(0u8), Val::n(n.mask), Val::n(0u8), Val::from_bytes(&n.addr.octets())])
    };
    match c {
        C::DstPrefix(n) => p(1, n),
        C::SrcPrefix(n) => p(2, n),
        C::Protocol(o) => ops_val(3, o),
        C::Port(o) => ops_val(4, o),
        C::DstPort(o) => ops_val(5, o),
        C::SrcPort(o) => ops_val(6, o),
        C::IcmpType(o) => ops_val(7, o),
        C::IcmpCode(o) => ops_val(8, o),
        C::TcpFlags(o) => ops_val(9, o),
        C::PacketLen(o) => ops_val(10, o),
        C::Dscp(o) => ops_val(11, o),
        C::Fragment(o) => ops_val(12, o),
    }
}

fn fs6_val(c: &rustybgp_packet::flowspec::FlowspecV6Component) -> Val {
    use rustybgp_packet::flowspec::FlowspecV6Component as C;
    let p = |t: u8, n: &rustybgp_packet::bgp::Ipv6Net, off: u8| {
        l(vec![Val::n(t), Val::n(0u8), Val::n(n.mask), Val::n(off), Val::from_bytes(&n.addr.octets())])
    };
    match c {
        C::DstPrefix { prefix, offset } => p(1, prefix, *offset),
        C::SrcPrefix { prefix, offset } => p(2, prefix, *offset),
        C::NextHeader(o) => ops_val(3, o),
        C::Port(o) => ops_val(4, o),
        C::DstPort(o) => ops_val(5, o),
        C::SrcPort(o) => ops_val(6, o),
        C::IcmpType(o) => ops_val(7, o),
        C::IcmpCode(o) => ops_val(8, o),
        C::TcpFlags(o) => ops_val(9, o),
        C::PacketLen(o) => ops_val(10, o),
        C::Dscp(o) => ops_val(11, o),
        C::Fragment(o) => ops_val(12, o),
        C::FlowLabel(o) => ops_val(13, o),
    }
}

// BGP-LS: [15, 0, type, body] unknown; [15, 1, proto, id, nd] node; [15, 2, proto, id, nd, nd, [tlv]] link;
// [15, 3|4, proto, id, nd, [tlv]] prefix; [15, 6, proto, id, nd, [sid], [mt ids]] SRv6 SID.
// nd = six options (asn, ls id, area, igp router id, bgp router id, confederation member);
// tlv = [0, local, remote] | [1, type, addr] | [2, [ids]] | [4, ospf route type] | [5, prefix len, addr] | [3, type, value]
fn ls_nd_val(n: &rustybgp_packet::ls::NodeDescriptor) -> Val {
    l(vec![
        Val::opt(n.asn.map(Val::n)),
        Val::opt(n.bgp_ls_id.map(Val::n)),
        Val::opt(n.ospf_area_id.map(Val::n)),
        Val::opt(n.igp_router_id.as_ref().map(|b| Val::from_bytes(b))),
        Val::opt(n.bgp_router_id.as_ref().map(|b| Val::from_bytes(b))),
        Val::opt(n.bgp_confederation_member.map(Val::n)),
    ])
}

fn ls_val(x: &rustybgp_packet::ls::BgpLsNlri) -> Val {
    use rustybgp_packet::ls::{BgpLsNlri as L, LinkDescTlv as LT, PrefixDescTlv as PT};
    let ids = |v: &Vec<u16>| l(v.iter().map(|i| Val::n(*i)).collect());
    let lt = |t: &LT| match t {
        LT::LinkId { local, remote } => l(vec![Val::n(0u8), Val::n(*local), Val::n(*remote)]),
        LT::Ipv4InterfaceAddr(a) => l(vec![Val::n(1u8), Val::n(259u16), Val::from_bytes(a)]),
        LT::Ipv4NeighborAddr(a) => l(vec![Val::n(1u8), Val::n(260u16), Val::from_bytes(a)]),
        LT::Ipv6InterfaceAddr(a) => l(vec![Val::n(1u8), Val::n(261u16), Val::from_bytes(a)]),
        LT::Ipv6NeighborAddr(a) => l(vec![Val::n(1u8), Val::n(262u16), Val::from_bytes(a)]),
        LT::MultiTopoId(v) => l(vec![Val::n(2u8), ids(v)]),
        LT::Unknown { tlv_type, value } => l(vec![Val::n(3u8), Val::n(*tlv_type), Val::from_bytes(value)]),
    };
    let pt = |t: &PT| match t {
        PT::MultiTopoId(v) => l(vec![Val::n(2u8), ids(v)]),
        PT::OspfRouteType(t) => l(vec![Val::n(4u8), Val::n(*t)]),
        PT::IpReachability { prefix_len, addr } => l(vec![Val::n(5u8), Val::n(*prefix_len), Val::from_bytes(addr)]),
        PT::Unknown { tlv_type, value } => l(vec![Val::n(3u8), Val::n(*tlv_type), Val::from_bytes(value)]),
    };
    match x {
        L::Unknown { nlri_type, body } => l(vec![Val::n(15u8), Val::n(0u8), Val::n(*nlri_type), Val::from_bytes(body)]),
        L::Node(n) => l(vec![Val::n(15u8), Val::n(1u8), Val::n(n.protocol_id), Val::n(n.identifier), ls_nd_val(&n.local_node)]),
        L::Link(n) => l(vec![
            Val::n(15u8),
            Val::n(2u8),
            Val::n(n.protocol_id),
            Val::n(n.identifier),
            ls_nd_val(&n.local_node),
            ls_nd_val(&n.remote_node),
            l(n.link_desc.iter().map(lt).collect()),
        ]),
        L::PrefixV4(n) => l(vec![
            Val::n(15u8),
            Val::n(3u8),
            Val::n(n.protocol_id),
            Val::n(n.identifier),
            ls_nd_val(&n.local_node),
            l(n.prefix_desc.iter().map(pt).collect()),
        ]),
        L::PrefixV6(n) => l(vec![
            Val::n(15u8),
            Val::n(4u8),
            Val::n(n.protocol_id),
            Val::n(n.identifier),
            ls_nd_val(&n.local_node),
            l(n.prefix_desc.iter().map(pt).collect()),
        ]),
        L::Srv6Sid(n) => l(vec![
            Val::n(15u8),
            Val::n(6u8),
            Val::n(n.protocol_id),
            Val::n(n.identifier),
            ls_nd_val(&n.local_node),
            l(n.sids.iter().map(|s| Val::from_bytes(s)).collect()),
            ids(&n.multi_topo_ids),
        ]),
    }
}

fn entries_val(e: &[PathNlri]) -> Val {
    l(e.iter().map(|p| l(vec![Val::n(p.path_id), nlri_val(&p.nlri)])).collect())
}

fn nexthop_val(n: &Option<Nexthop>) -> Val {
    Val::opt(n.as_ref().map(|x| Val::from_bytes(&x.to_bytes())))
}

// attribute: [code, flags, kind, data]; kind 0 = Val (data = [v]), 1 = Bin, 2 = Opaque
fn attr_val(a: &Attribute) -> Val {
    if let Some(v) = a.value() {
        l(vec![Val::n(a.code()), Val::n(a.flags()), Val::n(0u8), l(vec![Val::n(v)])])
    } else {
        let b = a.binary().expect("non-Val attribute has bytes");
        l(vec![
            Val::n(a.code()),
            Val::n(a.flags()),
            Val::n(if a.is_opaque() { 2u8 } else { 1u8 }),
            Val::from_bytes(b),
        ])
    }
}

fn notif_val(n: &rustybgp_packet::Notification) -> Vec<Val> {
    vec![
        Val::n(n.notification_code()),
        Val::n(n.notification_subcode()),
        Val::from_bytes(n.notification_data()),
    ]
}

// message: [1,asn,hold,rid,caps] [2,0,fam] [2,1,reach,mp_reach,unreach,mp_unreach,attrs,errs]
//          [3,code,sub,data] [4] [5,fam]
fn parsed_val(m: &ParsedMessage) -> Val {
    match m {
        ParsedMessage::Open(o) => l(vec![
            Val::n(1u8),
            Val::n(o.as_number),
            Val::n(o.holdtime.seconds()),
            Val::n(o.router_id),
            l(o.capability.iter().map(cap_val).collect()),
        ]),
        ParsedMessage::Update(ParsedUpdate::EndOfRib(f)) => l(vec![Val::n(2u8), Val::n(0u8), fam_raw(f)]),
        ParsedMessage::Update(ParsedUpdate::Routes {
            reach,
            mp_reach,
            unreach,
            mp_unreach,
            attrs,
            error_attrs,
        }) => {
            let r = |x: &Option<rustybgp_packet::ReachNlri>| {
                Val::opt(x.as_ref().map(|r| {
                    l(vec![fam_raw(&r.family), entries_val(&r.entries), nexthop_val(&r.nexthop)])
                }))
            };
            let u = |x: &Option<rustybgp_packet::UnreachNlri>| {
                Val::opt(x.as_ref().map(|r| l(vec![fam_raw(&r.family), entries_val(&r.entries)])))
            };
            l(vec![
                Val::n(2u8),
                Val::n(1u8),
                r(reach),
                r(mp_reach),
                u(unreach),
                u(mp_unreach),
                l(attrs.iter().map(attr_val).collect()),
                l(error_attrs
                    .iter()
                    .map(|e| l(vec![Val::n(e.attr_code), Val::n(e.attr_flags)]))
                    .collect()),
            ])
        }
        ParsedMessage::Notification(n) => {
            let mut v = vec![Val::n(3u8)];
            v.extend(notif_val(n));
            l(v)
        }
        ParsedMessage::Keepalive => l(vec![Val::n(4u8)]),
        ParsedMessage::RouteRefresh { family } => l(vec![Val::n(5u8), fam_raw(family)]),
    }
}

// Events: [0, msg, remaining]; [1, remaining]; [2, code, sub, data, remaining] (stream ends);
// [9] message returned with nothing consumed.
// fresh = true: a new PeerCodec (same negotiated parameters) before every call, see rtr_case.
fn bgp_case(codec_v: &Val, chunks: &[Val], fresh: bool) -> Val {
    let mut codec = codec_of(codec_v);
    let mut buf = BytesMut::new();
    let mut ev = Vec::new();
    'outer: for ch in chunks {
        buf.extend_from_slice(&ch.bytes());
        for _ in 0..MAX_DRAIN {
            let before = buf.len();
            if fresh {
                codec = codec_of(codec_v);
            }
            match codec.try_parse(&mut buf) {
                Ok(Some(m)) => {
                    ev.push(l(vec![Val::n(0u8), parsed_val(&m), Val::us(buf.len())]));
                    if buf.len() == before {
                        ev.push(l(vec![Val::n(9u8)]));
                        break 'outer;
                    }
                }
                Ok(None) => {
                    ev.push(l(vec![Val::n(1u8), Val::us(buf.len())]));
                    break;
                }
                Err(n) => {
                    let mut v = vec![Val::n(2u8)];
                    v.extend(notif_val(&n));
                    v.push(Val::us(buf.len()));
                    ev.push(l(v));
                    break 'outer;
                }
            }
        }
    }
    l(ev)
}

// validated message: [1] open, [3] notification, [4] keepalive, [5] refresh,
//   [2,0,fam] end-of-rib, [2,1,fam,entries,nexthop,attrs] reach, [2,2,fam,entries] unreach
fn message_val(m: &Message) -> Val {
    match m {
        Message::Open(_) => l(vec![Val::n(1u8)]),
        Message::Notification(_) => l(vec![Val::n(3u8)]),
        Message::Keepalive => l(vec![Val::n(4u8)]),
        Message::RouteRefresh { .. } => l(vec![Val::n(5u8)]),
        Message::Update(Update::EndOfRib(f)) => l(vec![Val::n(2u8), Val::n(0u8), fam_raw(f)]),
        Message::Update(Update::Reach {
            family,
            entries,
            nexthop,
            attr,
        }) => l(vec![
            Val::n(2u8),
            Val::n(1u8),
            fam_raw(family),
            entries_val(entries),
            nexthop_val(nexthop),
            l(attr.iter().map(attr_val).collect()),
        ]),
        Message::Update(Update::Unreach { family, entries }) => {
            l(vec![Val::n(2u8), Val::n(2u8), fam_raw(family), entries_val(entries)])
        }
    }
}

// [0, parsed, [validated...]] | [1] need more | [2, code, sub, data] parse error
// | [3, parsed, code, sub, data] validation demands a session reset
fn validate_case(codec: &Val, is_ebgp: bool, bytes: &[u8]) -> Val {
    let mut codec = codec_of(codec);
    let mut buf = BytesMut::from(bytes);
    match codec.try_parse(&mut buf) {
        Ok(None) => l(vec![Val::n(1u8)]),
        Err(n) => {
            let mut v = vec![Val::n(2u8)];
            v.extend(notif_val(&n));
            l(v)
        }
        Ok(Some(p)) => {
            let pv = parsed_val(&p);
            match rustybgp_packet::validate_message(p, is_ebgp) {
                Ok(it) => l(vec![Val::n(0u8), pv, l(it.map(|m| message_val(&m)).collect())]),
                Err(n) => {
                    let mut v = vec![Val::n(3u8), pv];
                    v.extend(notif_val(&n));
                    l(v)
                }
            }
        }
    }
}

fn run_case(c: &Val) -> Val {
    match c.at(0).int() {
        0 => bfd_case(&c.at(1).bytes()),
        1 => rtr_case(c.at(1).list(), false),
        2 => bgp_case(c.at(1), c.at(2).list(), false),
        4 => rtr_case(c.at(1).list(), true),
        5 => bgp_case(c.at(1), c.at(2).list(), true),
        3 => validate_case(c.at(1), c.at(2).bool(), &c.at(3).bytes()),
        k => panic!("verif: bad case kind {}", k),
    }
}

fn main() {
    val::run_cases(run_case);
}
