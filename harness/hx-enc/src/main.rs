// Correspondence harness for property C04 (encoder side of the BGP wire codec).
//
// A case is [local_caps, remote_caps, message].  The harness
//   (a) encodes the message with PeerCodec::negotiate(local, remote).encode_to
//       and prints the result (wire count or error) and the bytes written;
//   (b) feeds those bytes to the OPPOSITE side's codec,
//       PeerCodec::negotiate(remote, local).try_parse, until the buffer is
//       exhausted / incomplete / rejected, and prints what was decoded.
//   (c) re-encodes every decoded value (after validate_message) and decodes it again.
// Observation: [enc_result, bytes, [decoded...], leftover, [fixed-point flags]].
#[allow(dead_code)]
mod val {
    include!(concat!(env!("VERIF_HX_DIR"), "/common/val.rs"));
}
#[allow(dead_code)]
mod caps {
    include!(concat!(env!("VERIF_HX_DIR"), "/common/caps.rs"));
}
use val::Val;

use bytes::BytesMut;
use rustybgp_packet::bgp::{
    Attribute, Family, HoldTime, Ipv4Net, Ipv6Net, Message, Nexthop, Notification, Open,
    ParsedMessage, ParsedUpdate, PathNlri, PeerCodec, ReachNlri, UnreachNlri, Update,
};
use rustybgp_packet::mpls::{MplsLabel, MplsLabelStack};
use rustybgp_packet::rd::RouteDistinguisher;
use rustybgp_packet::{Nlri, evpn, flowspec, labeled, ls, mup, rtc, sr_policy, vpn};
use std::io::Cursor;
use std::net::{IpAddr, Ipv4Addr, Ipv6Addr};
use std::sync::Arc;

#[derive(Debug)]
struct BadCase(&'static str);

fn v4addr(v: &Val) -> Ipv4Addr {
    let b = v.bytes();
    Ipv4Addr::new(b[0], b[1], b[2], b[3])
}
fn v6addr(v: &Val) -> Ipv6Addr {
    let b = v.bytes();
    let a: [u8; 16] = b[..16].try_into().unwrap();
    Ipv6Addr::from(a)
}
fn labels_of(v: &Val) -> MplsLabelStack {
    MplsLabelStack::new(v.list().iter().map(|x| MplsLabel::new(x.u32())).collect())
}
fn labels_val(s: &MplsLabelStack) -> Val {
    Val::L(s.labels().iter().map(|l| Val::n(l.value())).collect())
}
fn rd_of(v: &Val) -> Result<RouteDistinguisher, BadCase> {
    RouteDistinguisher::decode(&v.bytes()).map_err(|_| BadCase("rd"))
}
fn rd_val(rd: &RouteDistinguisher) -> Val {
    let mut b = Vec::new();
    rd.encode(&mut b);
    Val::from_bytes(&b)
}

fn generic_nlri(fam: Family, b: &[u8]) -> Result<Nlri, BadCase> {
    let mut c = Cursor::new(b);
    let len = b.len();
    let bad = BadCase("generic nlri does not decode");
    let n = match fam {
        Family::IPV4_MUP | Family::IPV6_MUP => {
            Nlri::Mup(mup::MupNlri::decode(fam, &mut c, len).map_err(|_| bad)?)
        }
        Family::IPV4_FLOWSPEC => {
            Nlri::FlowspecV4(flowspec::FlowspecV4Nlri::decode(&mut c, len).map_err(|_| bad)?)
        }
        Family::IPV6_FLOWSPEC => {
            Nlri::FlowspecV6(flowspec::FlowspecV6Nlri::decode(&mut c, len).map_err(|_| bad)?)
        }
        Family::IPV4_FLOWSPEC_VPN => {
            Nlri::FlowspecVpnV4(flowspec::FlowspecVpnV4Nlri::decode(&mut c, len).map_err(|_| bad)?)
        }
        Family::IPV6_FLOWSPEC_VPN => {
            Nlri::FlowspecVpnV6(flowspec::FlowspecVpnV6Nlri::decode(&mut c, len).map_err(|_| bad)?)
        }
        Family::LS => Nlri::Ls(ls::BgpLsNlri::decode(&mut c).ok_or(bad)?),
        Family::IPV4_SRPOLICY | Family::IPV6_SRPOLICY => {
            Nlri::SrPolicy(sr_policy::SrPolicyNlri::decode(&mut c).map_err(|_| bad)?)
        }
        Family::L2VPN_EVPN => Nlri::Evpn(evpn::EvpnNlri::decode(&mut c).map_err(|_| bad)?),
        Family::RTC => Nlri::Rtc(rtc::RtcNlri::decode(&mut c).map_err(|_| bad)?),
        _ => return Err(BadCase("generic nlri of a structured family")),
    };
    if c.position() as usize != len {
        return Err(BadCase("generic nlri has trailing bytes"));
    }
    Ok(n)
}


fn ip_of(b: &[u8]) -> Result<IpAddr, BadCase> {
    match b.len() {
        4 => Ok(IpAddr::V4(Ipv4Addr::new(b[0], b[1], b[2], b[3]))),
        16 => {
            let a: [u8; 16] = b[..].try_into().unwrap();
            Ok(IpAddr::V6(Ipv6Addr::from(a)))
        }
        _ => Err(BadCase("ip length")),
    }
}
fn ip_val(a: &IpAddr) -> Val {
    match a {
        IpAddr::V4(x) => Val::from_bytes(&x.octets()),
        IpAddr::V6(x) => Val::from_bytes(&x.octets()),
    }
}
fn ops_of(v: &Val) -> Vec<flowspec::Op> {
    v.list().iter().map(|o| flowspec::Op { bits: o.at(0).u8(), value: o.at(1).u64() }).collect()
}
fn ops_val(ops: &[flowspec::Op]) -> Val {
    Val::L(ops.iter().map(|o| Val::L(vec![Val::n(o.bits), Val::n(o.value)])).collect())
}
fn fs4_comp_of(v: &Val) -> Result<flowspec::FlowspecV4Component, BadCase> {
    use flowspec::FlowspecV4Component as C;
    let l = v.list();
    if l[0].int() == 0 {
        let net = Ipv4Net { addr: v4addr(&l[4]), mask: l[2].u8() };
        return match l[1].int() {
            1 => Ok(C::DstPrefix(net)),
            2 => Ok(C::SrcPrefix(net)),
            _ => Err(BadCase("flowspec prefix component type")),
        };
    }
    let ops = ops_of(&l[2]);
    Ok(match l[1].int() {
        3 => C::Protocol(ops),
        4 => C::Port(ops),
        5 => C::DstPort(ops),
        6 => C::SrcPort(ops),
        7 => C::IcmpType(ops),
        8 => C::IcmpCode(ops),
        9 => C::TcpFlags(ops),
        10 => C::PacketLen(ops),
        11 => C::Dscp(ops),
        12 => C::Fragment(ops),
        _ => return Err(BadCase("flowspec v4 component type")),
    })
}
fn fs6_comp_of(v: &Val) -> Result<flowspec::FlowspecV6Component, BadCase> {
    use flowspec::FlowspecV6Component as C;
    let l = v.list();
    if l[0].int() == 0 {
        let prefix = Ipv6Net { addr: v6addr(&l[4]), mask: l[2].u8() };
        let offset = l[3].u8();
        return match l[1].int() {
            1 => Ok(C::DstPrefix { prefix, offset }),
            2 => Ok(C::SrcPrefix { prefix, offset }),
            _ => Err(BadCase("flowspec prefix component type")),
        };
    }
    let ops = ops_of(&l[2]);
    Ok(match l[1].int() {
        3 => C::NextHeader(ops),
        4 => C::Port(ops),
        5 => C::DstPort(ops),
        6 => C::SrcPort(ops),
        7 => C::IcmpType(ops),
        8 => C::IcmpCode(ops),
        9 => C::TcpFlags(ops),
        10 => C::PacketLen(ops),
        11 => C::Dscp(ops),
        12 => C::Fragment(ops),
        13 => C::FlowLabel(ops),
        _ => return Err(BadCase("flowspec v6 component type")),
    })
}
fn fs4_comp_val(c: &flowspec::FlowspecV4Component) -> Val {
    use flowspec::FlowspecV4Component as C;
    let pfx = |t: u8, n: &Ipv4Net| {
        Val::L(vec![Val::n(0u8), Val::n(t), Val::n(n.mask), Val::n(0u8), Val::from_bytes(&n.addr.octets())])
    };
    let ops = |t: u8, o: &Vec<flowspec::Op>| Val::L(vec![Val::n(1u8), Val::n(t), ops_val(o)]);
    match c {
        C::DstPrefix(n) => pfx(1, n),
        C::SrcPrefix(n) => pfx(2, n),
        C::Protocol(o) => ops(3, o),
        C::Port(o) => ops(4, o),
        C::DstPort(o) => ops(5, o),
        C::SrcPort(o) => ops(6, o),
        C::IcmpType(o) => ops(7, o),
        C::IcmpCode(o) => ops(8, o),
        C::TcpFlags(o) => ops(9, o),
        C::PacketLen(o) => ops(10, o),
        C::Dscp(o) => ops(11, o),
        C::Fragment(o) => ops(12, o),
    }
}
fn fs6_comp_val(c: &flowspec::FlowspecV6Component) -> Val {
    use flowspec::FlowspecV6Component as C;
    let pfx = |t: u8, n: &Ipv6Net, off: u8| {
        Val::L(vec![Val::n(0u8), Val::n(t), Val::n(n.mask), Val::n(off), Val::from_bytes(&n.addr.octets())])
    };
    let ops = |t: u8, o: &Vec<flowspec::Op>| Val::L(vec![Val::n(1u8), Val::n(t), ops_val(o)]);
    match c {
        C::DstPrefix { prefix, offset } => pfx(1, prefix, *offset),
        C::SrcPrefix { prefix, offset } => pfx(2, prefix, *offset),
        C::NextHeader(o) => ops(3, o),
        C::Port(o) => ops(4, o),
        C::DstPort(o) => ops(5, o),
        C::SrcPort(o) => ops(6, o),
        C::IcmpType(o) => ops(7, o),
        C::IcmpCode(o) => ops(8, o),
        C::TcpFlags(o) => ops(9, o),
        C::PacketLen(o) => ops(10, o),
        C::Dscp(o) => ops(11, o),
        C::Fragment(o) => ops(12, o),
        C::FlowLabel(o) => ops(13, o),
    }
}
// BGP-LS: descriptors travel as <type, value> pairs; the struct fields / enum variants are built from them
fn tlvs_of(v: &Val) -> Vec<(u16, Vec<u8>)> {
    v.list().iter().map(|t| (t.at(0).u16(), t.at(1).bytes())).collect()
}
fn tlvs_val(t: &[(u16, Vec<u8>)]) -> Val {
    Val::L(t.iter().map(|(ty, v)| Val::L(vec![Val::n(*ty), Val::from_bytes(v)])).collect())
}
fn u32_of(b: &[u8]) -> Result<u32, BadCase> {
    let a: [u8; 4] = b.try_into().map_err(|_| BadCase("u32 field"))?;
    Ok(u32::from_be_bytes(a))
}
fn node_desc_of(v: &Val) -> Result<ls::NodeDescriptor, BadCase> {
    let mut nd = ls::NodeDescriptor::default();
    let mut last = 0u16;
    for (ty, val) in tlvs_of(v) {
        if ty <= last {
            return Err(BadCase("node descriptor order"));
        }
        last = ty;
        match ty {
            512 => nd.asn = Some(u32_of(&val)?),
            513 => nd.bgp_ls_id = Some(u32_of(&val)?),
            514 => nd.ospf_area_id = Some(u32_of(&val)?),
            515 => nd.igp_router_id = Some(val),
            516 => nd.bgp_router_id = Some(val[..].try_into().map_err(|_| BadCase("router id"))?),
            517 => nd.bgp_confederation_member = Some(u32_of(&val)?),
            _ => return Err(BadCase("node descriptor type")),
        }
    }
    Ok(nd)
}
fn node_desc_val(nd: &ls::NodeDescriptor) -> Val {
    let mut t: Vec<(u16, Vec<u8>)> = Vec::new();
    if let Some(x) = nd.asn { t.push((512, x.to_be_bytes().to_vec())); }
    if let Some(x) = nd.bgp_ls_id { t.push((513, x.to_be_bytes().to_vec())); }
    if let Some(x) = nd.ospf_area_id { t.push((514, x.to_be_bytes().to_vec())); }
    if let Some(x) = &nd.igp_router_id { t.push((515, x.clone())); }
    if let Some(x) = nd.bgp_router_id { t.push((516, x.to_vec())); }
    if let Some(x) = nd.bgp_confederation_member { t.push((517, x.to_be_bytes().to_vec())); }
    tlvs_val(&t)
}
fn mt_ids(v: &[u8]) -> Vec<u16> {
    v.chunks_exact(2).map(|b| u16::from_be_bytes([b[0], b[1]])).collect()
}
fn link_desc_of(v: &Val) -> Vec<ls::LinkDescTlv> {
    use ls::LinkDescTlv as L;
    tlvs_of(v)
        .into_iter()
        .map(|(ty, val)| match (ty, val.len()) {
            (258, 8) => L::LinkId { local: u32_of(&val[..4]).unwrap(), remote: u32_of(&val[4..]).unwrap() },
            (259, 4) => L::Ipv4InterfaceAddr(val[..].try_into().unwrap()),
            (260, 4) => L::Ipv4NeighborAddr(val[..].try_into().unwrap()),
            (261, 16) => L::Ipv6InterfaceAddr(val[..].try_into().unwrap()),
            (262, 16) => L::Ipv6NeighborAddr(val[..].try_into().unwrap()),
            (263, n) if n % 2 == 0 => L::MultiTopoId(mt_ids(&val)),
            _ => L::Unknown { tlv_type: ty, value: val },
        })
        .collect()
}
fn link_desc_val(t: &[ls::LinkDescTlv]) -> Val {
    use ls::LinkDescTlv as L;
    let v: Vec<(u16, Vec<u8>)> = t
        .iter()
        .map(|x| match x {
            L::LinkId { local, remote } => {
                let mut b = local.to_be_bytes().to_vec();
                b.extend_from_slice(&remote.to_be_bytes());
                (258, b)
            }
            L::Ipv4InterfaceAddr(a) => (259, a.to_vec()),
            L::Ipv4NeighborAddr(a) => (260, a.to_vec()),
            L::Ipv6InterfaceAddr(a) => (261, a.to_vec()),
            L::Ipv6NeighborAddr(a) => (262, a.to_vec()),
            L::MultiTopoId(ids) => (263, ids.iter().flat_map(|i| i.to_be_bytes()).collect()),
            L::Unknown { tlv_type, value } => (*tlv_type, value.clone()),
        })
        .collect();
    tlvs_val(&v)
}
fn prefix_desc_of(v: &Val) -> Vec<ls::PrefixDescTlv> {
    use ls::PrefixDescTlv as P;
    tlvs_of(v)
        .into_iter()
        .map(|(ty, val)| match (ty, val.len()) {
            (263, n) if n % 2 == 0 => P::MultiTopoId(mt_ids(&val)),
            (264, 1) => P::OspfRouteType(val[0]),
            (265, n) if n >= 1 => P::IpReachability { prefix_len: val[0], addr: val[1..].to_vec() },
            _ => P::Unknown { tlv_type: ty, value: val },
        })
        .collect()
}
fn prefix_desc_val(t: &[ls::PrefixDescTlv]) -> Val {
    use ls::PrefixDescTlv as P;
    let v: Vec<(u16, Vec<u8>)> = t
        .iter()
        .map(|x| match x {
            P::MultiTopoId(ids) => (263, ids.iter().flat_map(|i| i.to_be_bytes()).collect()),
            P::OspfRouteType(t) => (264, vec![*t]),
            P::IpReachability { prefix_len, addr } => {
                let mut b = vec![*prefix_len];
                b.extend_from_slice(addr);
                (265, b)
            }
            P::Unknown { tlv_type, value } => (*tlv_type, value.clone()),
        })
        .collect();
    tlvs_val(&v)
}
fn ls_of(l: &[Val]) -> Result<ls::BgpLsNlri, BadCase> {
    Ok(match l[1].int() {
        1 => ls::BgpLsNlri::Node(ls::BgpLsNodeNlri { protocol_id: l[2].u8(), identifier: l[3].u64(), local_node: node_desc_of(&l[4])? }),
        2 => ls::BgpLsNlri::Link(ls::BgpLsLinkNlri {
            protocol_id: l[2].u8(),
            identifier: l[3].u64(),
            local_node: node_desc_of(&l[4])?,
            remote_node: node_desc_of(&l[5])?,
            link_desc: link_desc_of(&l[6]),
        }),
        3 | 4 => {
            let n = ls::BgpLsPrefixNlri {
                protocol_id: l[2].u8(),
                identifier: l[3].u64(),
                local_node: node_desc_of(&l[4])?,
                prefix_desc: prefix_desc_of(&l[5]),
            };
            if l[1].int() == 3 { ls::BgpLsNlri::PrefixV4(n) } else { ls::BgpLsNlri::PrefixV6(n) }
        }
        6 => {
            let mut sids = Vec::new();
            let mut mts = Vec::new();
            for s in l[5].list() {
                mts.push(s.at(0).u16());
                let a: [u8; 16] = s.at(1).bytes()[..].try_into().map_err(|_| BadCase("sid"))?;
                sids.push(a);
            }
            ls::BgpLsNlri::Srv6Sid(ls::BgpLsSrv6SidNlri {
                protocol_id: l[2].u8(),
                identifier: l[3].u64(),
                local_node: node_desc_of(&l[4])?,
                sids,
                multi_topo_ids: mts,
            })
        }
        0 => ls::BgpLsNlri::Unknown { nlri_type: l[2].u16(), body: l[3].bytes() },
        _ => return Err(BadCase("ls nlri kind")),
    })
}
fn ls_val(n: &ls::BgpLsNlri) -> Val {
    let t = |x: u8| Val::n(x);
    match n {
        ls::BgpLsNlri::Node(x) => Val::L(vec![t(15), t(1), Val::n(x.protocol_id), Val::n(x.identifier), node_desc_val(&x.local_node)]),
        ls::BgpLsNlri::Link(x) => Val::L(vec![
            t(15),
            t(2),
            Val::n(x.protocol_id),
            Val::n(x.identifier),
            node_desc_val(&x.local_node),
            node_desc_val(&x.remote_node),
            link_desc_val(&x.link_desc),
        ]),
        ls::BgpLsNlri::PrefixV4(x) => {
            Val::L(vec![t(15), t(3), Val::n(x.protocol_id), Val::n(x.identifier), node_desc_val(&x.local_node), prefix_desc_val(&x.prefix_desc)])
        }
        ls::BgpLsNlri::PrefixV6(x) => {
            Val::L(vec![t(15), t(4), Val::n(x.protocol_id), Val::n(x.identifier), node_desc_val(&x.local_node), prefix_desc_val(&x.prefix_desc)])
        }
        ls::BgpLsNlri::Srv6Sid(x) => Val::L(vec![
            t(15),
            t(6),
            Val::n(x.protocol_id),
            Val::n(x.identifier),
            node_desc_val(&x.local_node),
            Val::L(
                x.sids
                    .iter()
                    .enumerate()
                    .map(|(i, s)| Val::L(vec![Val::n(x.multi_topo_ids.get(i).copied().unwrap_or(0)), Val::from_bytes(s)]))
                    .collect(),
            ),
        ]),
        ls::BgpLsNlri::Unknown { nlri_type, body } => Val::L(vec![t(15), t(0), Val::n(*nlri_type), Val::from_bytes(body)]),
    }
}

fn esi_of(v: &Val) -> Result<evpn::Esi, BadCase> {
    let b = v.bytes();
    let a: [u8; 10] = b[..].try_into().map_err(|_| BadCase("esi"))?;
    Ok(evpn::Esi(a))
}
fn evpn_of(l: &[Val]) -> Result<evpn::EvpnNlri, BadCase> {
    Ok(match l[1].int() {
        1 => evpn::EvpnNlri::EthernetAutoDiscovery(evpn::EthernetAutoDiscoveryRoute {
            rd: rd_of(&l[2])?,
            esi: esi_of(&l[3])?,
            etag: l[4].u32(),
            label: l[5].u32(),
        }),
        2 => {
            let mac: [u8; 6] = l[5].bytes()[..].try_into().map_err(|_| BadCase("mac"))?;
            let ipb = l[6].bytes();
            evpn::EvpnNlri::MacIpAdvertisement(evpn::MacIpAdvertisement {
                rd: rd_of(&l[2])?,
                esi: esi_of(&l[3])?,
                etag: l[4].u32(),
                mac,
                ip: if ipb.is_empty() { None } else { Some(ip_of(&ipb)?) },
                label1: l[7].u32(),
                label2: l[8].list().first().map(|x| x.u32()),
            })
        }
        3 => evpn::EvpnNlri::InclusiveMulticastEthernetTag(evpn::InclusiveMulticastEthernetTag {
            rd: rd_of(&l[2])?,
            etag: l[3].u32(),
            originating_router_ip: ip_of(&l[4].bytes())?,
        }),
        4 => evpn::EvpnNlri::EthernetSegment(evpn::EthernetSegmentRoute {
            rd: rd_of(&l[2])?,
            esi: esi_of(&l[3])?,
            originating_router_ip: ip_of(&l[4].bytes())?,
        }),
        5 => evpn::EvpnNlri::EthernetIpPrefix(evpn::EthernetIpPrefixRoute {
            rd: rd_of(&l[2])?,
            esi: esi_of(&l[3])?,
            etag: l[4].u32(),
            prefix_len: l[5].u8(),
            ip_prefix: ip_of(&l[6].bytes())?,
            gateway_ip: ip_of(&l[7].bytes())?,
            label: l[8].u32(),
        }),
        _ => return Err(BadCase("evpn route type")),
    })
}
fn evpn_val(e: &evpn::EvpnNlri) -> Val {
    use evpn::EvpnNlri as E;
    let t = |n: u8| Val::n(n);
    match e {
        E::EthernetAutoDiscovery(r) => Val::L(vec![t(12), t(1), rd_val(&r.rd), Val::from_bytes(&r.esi.0), Val::n(r.etag), Val::n(r.label)]),
        E::MacIpAdvertisement(r) => Val::L(vec![
            t(12),
            t(2),
            rd_val(&r.rd),
            Val::from_bytes(&r.esi.0),
            Val::n(r.etag),
            Val::from_bytes(&r.mac),
            match &r.ip {
                Some(a) => ip_val(a),
                None => Val::L(vec![]),
            },
            Val::n(r.label1),
            Val::opt(r.label2.map(Val::n)),
        ]),
        E::InclusiveMulticastEthernetTag(r) => {
            Val::L(vec![t(12), t(3), rd_val(&r.rd), Val::n(r.etag), ip_val(&r.originating_router_ip)])
        }
        E::EthernetSegment(r) => {
            Val::L(vec![t(12), t(4), rd_val(&r.rd), Val::from_bytes(&r.esi.0), ip_val(&r.originating_router_ip)])
        }
        E::EthernetIpPrefix(r) => Val::L(vec![
            t(12),
            t(5),
            rd_val(&r.rd),
            Val::from_bytes(&r.esi.0),
            Val::n(r.etag),
            Val::n(r.prefix_len),
            ip_val(&r.ip_prefix),
            ip_val(&r.gateway_ip),
            Val::n(r.label),
        ]),
    }
}

fn nlri_of(v: &Val) -> Result<Nlri, BadCase> {
    let l = v.list();
    Ok(match l[0].int() {
        0 => Nlri::V4(Ipv4Net { addr: v4addr(&l[2]), mask: l[1].u8() }),
        1 => Nlri::V6(Ipv6Net { addr: v6addr(&l[2]), mask: l[1].u8() }),
        2 => Nlri::VpnV4(vpn::VpnV4Nlri {
            labels: labels_of(&l[1]),
            rd: rd_of(&l[2])?,
            prefix: Ipv4Net { addr: v4addr(&l[4]), mask: l[3].u8() },
        }),
        3 => Nlri::VpnV6(vpn::VpnV6Nlri {
            labels: labels_of(&l[1]),
            rd: rd_of(&l[2])?,
            prefix: Ipv6Net { addr: v6addr(&l[4]), mask: l[3].u8() },
        }),
        4 => Nlri::LabeledV4(labeled::LabeledV4Nlri {
            labels: labels_of(&l[1]),
            prefix: Ipv4Net { addr: v4addr(&l[3]), mask: l[2].u8() },
        }),
        5 => Nlri::LabeledV6(labeled::LabeledV6Nlri {
            labels: labels_of(&l[1]),
            prefix: Ipv6Net { addr: v6addr(&l[3]), mask: l[2].u8() },
        }),
        9 => generic_nlri(caps::fam_of(&l[1]), &l[2].bytes())?,
        10 => {
            let v6 = l[1].bool();
            let rd = match l[2].list().first() {
                Some(b) => Some(rd_of(b)?),
                None => None,
            };
            if v6 {
                let comps = l[3].list().iter().map(fs6_comp_of).collect::<Result<Vec<_>, _>>()?;
                match rd {
                    Some(rd) => Nlri::FlowspecVpnV6(flowspec::FlowspecVpnV6Nlri { rd, components: comps }),
                    None => Nlri::FlowspecV6(flowspec::FlowspecV6Nlri { components: comps }),
                }
            } else {
                let comps = l[3].list().iter().map(fs4_comp_of).collect::<Result<Vec<_>, _>>()?;
                match rd {
                    Some(rd) => Nlri::FlowspecVpnV4(flowspec::FlowspecVpnV4Nlri { rd, components: comps }),
                    None => Nlri::FlowspecV4(flowspec::FlowspecV4Nlri { components: comps }),
                }
            }
        }
        11 => Nlri::Rtc(rtc::RtcNlri {
            match_type: match l[1].int() {
                0 => rtc::MatchType::Wildcard,
                1 => rtc::MatchType::AsWildcard { origin_as: l[2].u32() },
                2 => {
                    let b = l[3].bytes();
                    let rt: [u8; 8] = b[..].try_into().map_err(|_| BadCase("rt"))?;
                    rtc::MatchType::ExactMatch { origin_as: l[2].u32(), route_target: rt }
                }
                _ => return Err(BadCase("rtc kind")),
            },
        }),
        12 => Nlri::Evpn(evpn_of(l)?),
        14 => Nlri::Mup(match l[1].int() {
            1 => mup::MupNlri::InterworkSegmentDiscovery(mup::MupInterworkSegmentDiscoveryRoute {
                rd: rd_of(&l[2])?,
                prefix_len: l[3].u8(),
                prefix_addr: ip_of(&l[4].bytes())?,
            }),
            2 => mup::MupNlri::DirectSegmentDiscovery(mup::MupDirectSegmentDiscoveryRoute {
                rd: rd_of(&l[2])?,
                address: ip_of(&l[3].bytes())?,
            }),
            3 => mup::MupNlri::Type1SessionTransformed(mup::MupType1SessionTransformedRoute {
                rd: rd_of(&l[2])?,
                prefix_len: l[3].u8(),
                prefix_addr: ip_of(&l[4].bytes())?,
                teid: l[5].u32(),
                qfi: l[6].u8(),
                endpoint_address: ip_of(&l[7].bytes())?,
                source_address: match l[8].list().first() {
                    Some(b) => Some(ip_of(&b.bytes())?),
                    None => None,
                },
            }),
            4 => mup::MupNlri::Type2SessionTransformed(mup::MupType2SessionTransformedRoute {
                rd: rd_of(&l[2])?,
                endpoint_address_length: l[3].u8(),
                endpoint_address: ip_of(&l[4].bytes())?,
                teid: l[5].u32(),
            }),
            _ => return Err(BadCase("mup route type")),
        }),
        15 => Nlri::Ls(ls_of(l)?),
        13 => Nlri::SrPolicy(sr_policy::SrPolicyNlri {
            distinguisher: l[1].u32(),
            color: l[2].u32(),
            endpoint: ip_of(&l[3].bytes())?,
        }),
        _ => return Err(BadCase("nlri tag")),
    })
}

fn nlri_val(fam: Family, n: &Nlri) -> Val {
    match n {
        Nlri::V4(p) => Val::L(vec![Val::n(0u8), Val::n(p.mask), Val::from_bytes(&p.addr.octets())]),
        Nlri::V6(p) => Val::L(vec![Val::n(1u8), Val::n(p.mask), Val::from_bytes(&p.addr.octets())]),
        Nlri::VpnV4(x) => Val::L(vec![
            Val::n(2u8),
            labels_val(&x.labels),
            rd_val(&x.rd),
            Val::n(x.prefix.mask),
            Val::from_bytes(&x.prefix.addr.octets()),
        ]),
        Nlri::VpnV6(x) => Val::L(vec![
            Val::n(3u8),
            labels_val(&x.labels),
            rd_val(&x.rd),
            Val::n(x.prefix.mask),
            Val::from_bytes(&x.prefix.addr.octets()),
        ]),
        Nlri::LabeledV4(x) => Val::L(vec![
            Val::n(4u8),
            labels_val(&x.labels),
            Val::n(x.prefix.mask),
            Val::from_bytes(&x.prefix.addr.octets()),
        ]),
        Nlri::LabeledV6(x) => Val::L(vec![
            Val::n(5u8),
            labels_val(&x.labels),
            Val::n(x.prefix.mask),
            Val::from_bytes(&x.prefix.addr.octets()),
        ]),
        Nlri::FlowspecV4(x) => Val::L(vec![Val::n(10u8), Val::n(0u8), Val::L(vec![]), Val::L(x.components.iter().map(fs4_comp_val).collect())]),
        Nlri::FlowspecV6(x) => Val::L(vec![Val::n(10u8), Val::n(1u8), Val::L(vec![]), Val::L(x.components.iter().map(fs6_comp_val).collect())]),
        Nlri::FlowspecVpnV4(x) => Val::L(vec![Val::n(10u8), Val::n(0u8), Val::L(vec![rd_val(&x.rd)]), Val::L(x.components.iter().map(fs4_comp_val).collect())]),
        Nlri::FlowspecVpnV6(x) => Val::L(vec![Val::n(10u8), Val::n(1u8), Val::L(vec![rd_val(&x.rd)]), Val::L(x.components.iter().map(fs6_comp_val).collect())]),
        Nlri::Rtc(x) => match &x.match_type {
            rtc::MatchType::Wildcard => Val::L(vec![Val::n(11u8), Val::n(0u8), Val::n(0u8), Val::L(vec![])]),
            rtc::MatchType::AsWildcard { origin_as } => Val::L(vec![Val::n(11u8), Val::n(1u8), Val::n(*origin_as), Val::L(vec![])]),
            rtc::MatchType::ExactMatch { origin_as, route_target } => {
                Val::L(vec![Val::n(11u8), Val::n(2u8), Val::n(*origin_as), Val::from_bytes(route_target)])
            }
        },
        Nlri::Evpn(x) => evpn_val(x),
        Nlri::Ls(x) => ls_val(x),
        Nlri::Mup(x) => match x {
            mup::MupNlri::InterworkSegmentDiscovery(r) => {
                Val::L(vec![Val::n(14u8), Val::n(1u8), rd_val(&r.rd), Val::n(r.prefix_len), ip_val(&r.prefix_addr)])
            }
            mup::MupNlri::DirectSegmentDiscovery(r) => Val::L(vec![Val::n(14u8), Val::n(2u8), rd_val(&r.rd), ip_val(&r.address)]),
            mup::MupNlri::Type1SessionTransformed(r) => Val::L(vec![
                Val::n(14u8),
                Val::n(3u8),
                rd_val(&r.rd),
                Val::n(r.prefix_len),
                ip_val(&r.prefix_addr),
                Val::n(r.teid),
                Val::n(r.qfi),
                ip_val(&r.endpoint_address),
                Val::opt(r.source_address.as_ref().map(ip_val)),
            ]),
            mup::MupNlri::Type2SessionTransformed(r) => Val::L(vec![
                Val::n(14u8),
                Val::n(4u8),
                rd_val(&r.rd),
                Val::n(r.endpoint_address_length),
                ip_val(&r.endpoint_address),
                Val::n(r.teid),
            ]),
        },
        Nlri::SrPolicy(x) => Val::L(vec![Val::n(13u8), Val::n(x.distinguisher), Val::n(x.color), ip_val(&x.endpoint)]),
        other => Val::L(vec![
            Val::n(9u8),
            caps::fam_val(&fam),
            Val::from_bytes(&other.encode_to_bytes()),
        ]),
    }
}

fn entries_of(v: &Val) -> Result<Vec<PathNlri>, BadCase> {
    v.list()
        .iter()
        .map(|e| Ok(PathNlri { path_id: e.at(0).u32(), nlri: nlri_of(e.at(1))? }))
        .collect()
}
fn entries_val(fam: Family, e: &[PathNlri]) -> Val {
    Val::L(
        e.iter()
            .map(|p| Val::L(vec![Val::n(p.path_id), nlri_val(fam, &p.nlri)]))
            .collect(),
    )
}

fn nexthop_of(v: &Val) -> Result<Option<Nexthop>, BadCase> {
    match v.list().first() {
        None => Ok(None),
        Some(b) => {
            let b = b.bytes();
            match b.len() {
                4 => Ok(Some(Nexthop::V4(Ipv4Addr::new(b[0], b[1], b[2], b[3])))),
                16 => {
                    let a: [u8; 16] = b[..].try_into().unwrap();
                    Ok(Some(Nexthop::V6(Ipv6Addr::from(a))))
                }
                32 => {
                    let g: [u8; 16] = b[..16].try_into().unwrap();
                    let l: [u8; 16] = b[16..].try_into().unwrap();
                    Ok(Some(Nexthop::V6LinkLocal(Ipv6Addr::from(g), Ipv6Addr::from(l))))
                }
                _ => Err(BadCase("nexthop length")),
            }
        }
    }
}
fn nexthop_val(n: &Option<Nexthop>) -> Val {
    // spelled out (not Nexthop::to_bytes, which is part of the code under test)
    Val::opt(n.as_ref().map(|n| match n {
        Nexthop::V4(a) => Val::from_bytes(&a.octets()),
        Nexthop::V6(a) => Val::from_bytes(&a.octets()),
        Nexthop::V6LinkLocal(g, l) => {
            let mut v = g.octets().to_vec();
            v.extend_from_slice(&l.octets());
            Val::from_bytes(&v)
        }
    }))
}

fn attr_of(v: &Val) -> Result<Attribute, BadCase> {
    let l = v.list();
    let code = l[1].u8();
    match l[0].int() {
        0 => Attribute::new_with_value(code, l[3].u32()).ok_or(BadCase("attr code")),
        1 => Attribute::new_with_bin(code, l[3].bytes()).ok_or(BadCase("attr code")),
        2 => Ok(Attribute::new_opaque(code, l[2].u8(), l[3].bytes())),
        _ => Err(BadCase("attr tag")),
    }
}
fn attr_val(a: &Attribute) -> Val {
    if let Some(v) = a.value() {
        Val::L(vec![Val::n(0u8), Val::n(a.code()), Val::n(a.flags()), Val::n(v)])
    } else {
        Val::L(vec![
            Val::n(if a.is_opaque() { 2u8 } else { 1u8 }),
            Val::n(a.code()),
            Val::n(a.flags()),
            Val::from_bytes(a.binary().unwrap()),
        ])
    }
}

fn message_of(v: &Val) -> Result<Message, BadCase> {
    let l = v.list();
    Ok(match l[0].int() {
        1 => Message::Open(Open {
            as_number: l[1].u32(),
            holdtime: HoldTime::new(l[2].u16()).ok_or(BadCase("hold time"))?,
            router_id: l[3].u32(),
            capability: caps::caps_of(&l[4]),
        }),
        2 => Message::Update(Update::Reach {
            family: caps::fam_of(&l[1]),
            nexthop: nexthop_of(&l[2])?,
            attr: Arc::new(l[3].list().iter().map(attr_of).collect::<Result<Vec<_>, _>>()?),
            entries: entries_of(&l[4])?,
        }),
        3 => Message::Update(Update::Unreach {
            family: caps::fam_of(&l[1]),
            entries: entries_of(&l[2])?,
        }),
        4 => Message::Update(Update::EndOfRib(caps::fam_of(&l[1]))),
        5 => Message::Notification(Notification::from_notification(l[1].u8(), l[2].u8(), l[3].bytes())),
        6 => Message::Keepalive,
        7 => Message::RouteRefresh { family: caps::fam_of(&l[1]) },
        _ => return Err(BadCase("message tag")),
    })
}

fn reach_val(r: &Option<ReachNlri>) -> Val {
    Val::opt(r.as_ref().map(|r| {
        Val::L(vec![caps::fam_val(&r.family), nexthop_val(&r.nexthop), entries_val(r.family, &r.entries)])
    }))
}
fn unreach_val(r: &Option<UnreachNlri>) -> Val {
    Val::opt(
        r.as_ref()
            .map(|r| Val::L(vec![caps::fam_val(&r.family), entries_val(r.family, &r.entries)])),
    )
}

fn parsed_val(m: &ParsedMessage) -> Val {
    match m {
        ParsedMessage::Open(o) => Val::L(vec![
            Val::n(1u8),
            Val::n(o.as_number),
            Val::n(o.holdtime.seconds()),
            Val::n(o.router_id),
            caps::caps_val(&o.capability),
        ]),
        ParsedMessage::Update(ParsedUpdate::Routes { reach, mp_reach, unreach, mp_unreach, attrs, error_attrs }) => {
            Val::L(vec![
                Val::n(2u8),
                reach_val(reach),
                reach_val(mp_reach),
                unreach_val(unreach),
                unreach_val(mp_unreach),
                Val::L(attrs.iter().map(attr_val).collect()),
                Val::L(
                    error_attrs
                        .iter()
                        .map(|e| Val::L(vec![Val::n(e.attr_code), Val::n(e.attr_flags)]))
                        .collect(),
                ),
            ])
        }
        ParsedMessage::Update(ParsedUpdate::EndOfRib(f)) => Val::L(vec![Val::n(4u8), caps::fam_val(f)]),
        ParsedMessage::Notification(n) => Val::L(vec![
            Val::n(5u8),
            Val::n(n.notification_code()),
            Val::n(n.notification_subcode()),
            Val::from_bytes(n.notification_data()),
        ]),
        ParsedMessage::Keepalive => Val::L(vec![Val::n(6u8)]),
        ParsedMessage::RouteRefresh { family } => Val::L(vec![Val::n(7u8), caps::fam_val(family)]),
    }
}

// Hidden encoder state.  The model's encoder is a function of the message and of an immutable session
// codec; PeerCodec::encode_to takes &mut self.  One long-lived codec per (local, remote) capability pair
// therefore encodes, over the whole run, every message of that pair in case order -- each message is built,
// encoded and DROPPED before the next one is built, as the sending task does -- and right after the message of
// the current case it encodes the previous case's message again (rebuilt from its description, so it is a new
// allocation that typically lands where the one just dropped was).  Both encodings must be byte-identical to
// what a fresh codec produces for the same message: mem = [m1, m2] with 1 = identical, 0 = different,
// 2 = not applicable (no earlier message / message not buildable).
thread_local! {
    static HISTORY: std::cell::RefCell<std::collections::HashMap<String, (PeerCodec, Option<Val>)>> =
        std::cell::RefCell::new(std::collections::HashMap::new());
}

fn encode_fresh(local: &[rustybgp_packet::bgp::Capability], remote: &[rustybgp_packet::bgp::Capability], mv: &Val) -> Option<(bool, Vec<u8>)> {
    let msg = message_of(mv).ok()?;
    let mut c = PeerCodec::negotiate(local, remote);
    let mut b = BytesMut::new();
    let ok = c.encode_to(&msg, &mut b).is_ok();
    Some((ok, b.to_vec()))
}

fn encoder_memory(case: &Val, local: &[rustybgp_packet::bgp::Capability], remote: &[rustybgp_packet::bgp::Capability]) -> Val {
    let key = format!("{}|{}", case.at(0), case.at(1));
    HISTORY.with(|h| {
        let mut h = h.borrow_mut();
        let (codec, prev) = h.entry(key).or_insert_with(|| (PeerCodec::negotiate(local, remote), None));
        let mut out = Vec::new();
        let mut todo: Vec<Val> = vec![case.at(2).clone()];
        if let Some(p) = prev.take() {
            todo.push(p);
        }
        for mv in &todo {
            let fresh = encode_fresh(local, remote, mv);
            let lived = match message_of(mv) {
                Ok(msg) => {
                    let mut b = BytesMut::new();
                    let ok = codec.encode_to(&msg, &mut b).is_ok();
                    Some((ok, b.to_vec()))
                } // msg is dropped here, before the next one is built
                Err(_) => None,
            };
            out.push(match (fresh, lived) {
                (Some(a), Some(b)) => Val::b(a == b),
                _ => Val::I(2),
            });
        }
        if out.len() < 2 {
            out.push(Val::I(2));
        }
        *prev = Some(case.at(2).clone());
        Val::L(out)
    })
}

fn run_case(case: &Val) -> Val {
    let local = caps::caps_of(case.at(0));
    let remote = caps::caps_of(case.at(1));
    let msg = match message_of(case.at(2)) {
        Ok(m) => m,
        Err(BadCase(_)) => return Val::L(vec![Val::I(-9)]),
    };
    let mem = encoder_memory(case, &local, &remote);
    let mut tx = PeerCodec::negotiate(&local, &remote);
    let mut buf = BytesMut::new();
    let enc = match tx.encode_to(&msg, &mut buf) {
        Ok(n) => Val::us(n),
        Err(_) => Val::I(-2),
    };
    let bytes = Val::from_bytes(&buf);
    let mut rx = PeerCodec::negotiate(&remote, &local);
    let mut decoded = Vec::new();
    let mut parsed: Vec<ParsedMessage> = Vec::new();
    let mut guard = 0usize;
    loop {
        if buf.is_empty() {
            break;
        }
        guard += 1;
        if guard > 100000 {
            decoded.push(Val::L(vec![Val::I(-5)]));
            break;
        }
        match rx.try_parse(&mut buf) {
            Ok(Some(m)) => {
                decoded.push(parsed_val(&m));
                parsed.push(m);
            }
            Ok(None) => {
                decoded.push(Val::L(vec![Val::I(-4)]));
                break;
            }
            Err(n) => {
                decoded.push(Val::L(vec![
                    Val::I(-3),
                    Val::n(n.notification_code()),
                    Val::n(n.notification_subcode()),
                ]));
                break;
            }
        }
    }
    let leftover = buf.len();
    // (c) decode(encode(y)) = y for every value y obtained by decoding: validate y into
    // send-path messages, encode them with the sender's codec, decode with the peer's.
    let mut fix = Vec::new();
    for y in &parsed {
        fix.push(Val::I(refix(y, &mut tx, &mut rx)));
    }
    Val::L(vec![enc, bytes, Val::L(decoded), Val::us(leftover), Val::L(fix), mem])
}

// 1: fixed point, 0: not a fixed point, 2: not applicable (validation yields != 1 message)
fn refix(y: &ParsedMessage, tx: &mut PeerCodec, rx: &mut PeerCodec) -> i128 {
    let msgs: Vec<Message> = match rustybgp_packet::validate_message(y.clone(), false) {
        Ok(it) => it.collect(),
        Err(_) => return 2,
    };
    if msgs.len() != 1 {
        return 2;
    }
    let mut buf = BytesMut::new();
    if tx.encode_to(&msgs[0], &mut buf).is_err() {
        return 0;
    }
    let mut again = Vec::new();
    while !buf.is_empty() {
        match rx.try_parse(&mut buf) {
            Ok(Some(m)) => again.push(m),
            _ => return 0,
        }
    }
    if again.len() != 1 {
        return 0;
    }
    if parsed_val(&again[0]) == parsed_val(y) { 1 } else { 0 }
}

fn main() {
    let mode = std::env::args().nth(1).unwrap_or_default();
    match mode.as_str() {
        "enc" => val::run_cases(run_case),
        m => panic!("unknown mode {}", m),
    }
}
